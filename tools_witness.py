#!/usr/bin/env python3
import json,sys
for f in sys.argv[1:]:
    d=json.load(open(f))
    print('==',d['signature'], 'case',d['case'])
    det=d['detail']
    print(json.dumps({k:v for k,v in det.items() if k!='history'})[:1200])
    for h in det.get('history',[]):
        if 'Tick' in h['op']: continue
        print('   ',h['t'], h['op'], h['outcome'][:70])
