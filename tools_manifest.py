#!/usr/bin/env python3
"""regenerates MANIFEST.json from the table below (claimed checks) and properties.jsonl"""
import json, subprocess
props=[json.loads(l) for l in open('/verif/properties.jsonl')]
hooks=subprocess.run(['git','-C','/repo','log','--format=%h %s'],capture_output=True,text=True).stdout.splitlines()
hook_commits=[l.split()[0] for l in hooks if l.split(' ',1)[1].startswith('verif hook')]
T="runtime monitoring: "
claimed={
 "C01":("exploration","snapshot-diff monitor around every API call of random multi-identity histories, decided by an independent rights model",T+"before/after storage snapshots + reference rights model over generated room histories"),
 "C02":("exploration","the victim runs the real synchronise_room against a harness serving peer offering shuffled batches of honest and unentitled rows; per-row oracle from the rights model, trace check on storage, consequence check on another room live and after restart",T+"adversarial serving peer + per-row reference verdict + storage trace monitor"),
 "C03":("exploration","random multi-peer multi-day histories and pull orders on real database services wired back to back, quiescence by repeated rounds, then differential comparison of room dumps, query batteries and transfer counts",T+"differential monitor between real replicas after bounded quiescence, counting proxy on the sync channels"),
 "C06":("exploration","generated signed rows with boundary-moving / optional-field / kind mutants that keep the hashed byte stream, verification of every stored row, and a live signing-oracle probe through the real inbound query handler",T+"pairwise verify() oracle over re-partitioning mutants + signing-oracle probe"),
 "C07":("exploration","adversarially assembled room definitions (re-attached, replayed, self-signed, tampered, out-of-order) pushed through the real verify_room_node + add_room_node; decision-matrix oracle from the rights model",T+"decision-matrix monitor of the live room against the reference rights model"),
 "C09":("exploration","after every step of multi-day, multi-room, multi-batching histories and a deterministic recompute barrier, the stored daily log is compared with an independent recomputation, and logs are compared between replicas",T+"from-scratch recomputation oracle + cross-replica differential after a FIFO barrier"),
 "C10":("exploration","decision matrices of a room read through five construction paths (live, restart, fresh import, update import, restart of importer) after every step of generated histories, each compared with the rights model",T+"differential decision-matrix monitor across construction paths + reference rights model"),
 "C11":("exploration","tombstone monitor after every pull of deletion-centred histories (pull orders exhaustive for 3 peers x length 3, random beyond), and presence/absence check at quiescence",T+"per-peer tombstone invariant monitor over enumerated and random pull orders"),
 "C16":("exploration","stress of 2-3 in-flight mutations of one row (concurrent callers / pipelined stream, reader pool of 4) with the set of serial outcomes as oracle, plus a sequential control",T+"serial-outcome (linearizability style) oracle over stress interleavings"),
 "C08":("exploration","random request sequences over the 13 request kinds against the real InboundQueryService, across authentication, RoomList and live definition changes delivered through the library's local-event handler; every answer decoded by kind and every served item mapped to its room, membership decided by the rights model",T+"boundary answer-log monitor: decoded items vs reference membership model"),
 "C12":("exploration","operations performed on one real instance are replayed on another: accepted ones by a real pull and a per-row presence check, refused ones as the rows the operation would have produced, signed with the same key and served by a harness peer",T+"differential verdict monitor between the local path and the synchronisation path"),
 "C15":("exploration","generated sequences of valid and invalid model versions applied at run time and at start-up on instances holding data; row values, storage identifiers, reported / stored model, index list and query battery compared before/after and across instances",T+"differential monitor of identifiers and row values across versions, restarts and instances"),
 "C17":("exploration","unique-token text model: after every step of histories with creations, updates, deletions + re-creations, index toggling and pulls, search(token) on each peer must return exactly the stored rows whose current text contains the token",T+"reference text-index model checked after every step on every peer"),
 "C18":("exploration","subscribers drained into an unbounded log before the workload; after each acknowledged operation (sequential and concurrent phases, pulls, room mutations) and a FIFO barrier, the (room, entity, day) triples derived from before/after storage snapshots must be included in the announced ones",T+"inclusion monitor between storage-diff triples and the recorded event log"),
 "C19":("exploration","harness-played remote sides over the NewConnection seam of a real Discret: correct, wrong-key, replayed, other-peer, malformed and missing proofs, invitations reused sequentially and racing, altered invitation bytes; trust events must follow a proof by the claimed key of that connection's own challenge",T+"event-log monitor over hostile handshake behaviours + sampled token symmetry"),
 "C20":("exploration","every message sequence up to a bounded length for small (peers, rooms, limit) and random long ones against the real RoomLockService on a current-thread runtime, boundary shadow-state monitor, drain phase for bounded progress",T+"boundary event-log shadow-state monitor over enumerated and random schedules"),
}
checks=[]
for pid,(level,text,tech) in sorted(claimed.items()):
    checks.append({"property_id":pid,"quick_cmd":f"./check {pid} --tier quick","thorough_cmd":f"./check {pid} --tier thorough",
      "evidence_file":f"/verif/evidence/{pid}.json","replay_cmd_template":f"./check {pid} --tier quick --seed <seed of the replay file> --case <case of the replay file>","engine":"dv",
      "level_claimed":{"category":level,"text":text,"design_ref":f"DESIGN.md §4 {pid}"},
      "level_note":"held on the executions explored within the stated bounds; the harness, its reference models and the feature-gated hooks are trusted; known findings are listed in known_findings.json",
      "technique":tech})
m={"version":1,"setup_cmd":"./check --build-only",
 "hooks":{"guard":"cargo feature `verif` of the discret crate (off by default)",
  "enable":"the harness crate /verif/harness depends on /repo by path with features=[\"verif\"]; every check runs `cargo build --offline` in /verif/harness first, so /repo's current working tree is rebuilt with the hooks on",
  "baseline_off_cmd":"cd /repo && (cargo nextest run --workspace --no-fail-fast --test-threads 8 --offline || cargo test --workspace --no-fail-fast --offline)",
  "source_commits":hook_commits,"add_only":True},
 "engines":[{"name":"dv","path":"/verif/harness","serves_properties":sorted(claimed.keys()),"kind_free_text":"Rust harness: hostile/stress workloads against the real library with reference-model, differential and event-log monitors; sharded into child processes"}],
 "checks":checks,
 "not_applicable":[{"property_id":p["id"],"reason":"check under construction in this session; not claimed yet"} for p in props if p["id"] not in claimed],
 "notes":"see DESIGN.md; known findings and fixed defects in known_findings.json"}
json.dump(m,open('/verif/MANIFEST.json','w'),indent=1)
print("claimed",len(checks),"not claimed",len(m["not_applicable"]),"hook commits",hook_commits)
