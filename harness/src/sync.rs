//! Directed pull between two database services over in-memory channels (seam S-SYNC).
//! The puller runs the library's own `synchronise_room`; the serving side is either the library's
//! own `InboundQueryService` on another database (honest peer) or a harness `FakeServer`.
use crate::peer::Peer;
use discret::verif::database::daily_log::{DailyLog, RoomDefinitionLog};
use discret::verif::database::edge::{Edge, EdgeDeletionEntry};
use discret::verif::database::node::{Node, NodeDeletionEntry, NodeIdentifier};
use discret::verif::database::room_node::RoomNode;
use discret::verif::peer_connection_service::{PeerConnectionMessage, PeerConnectionService};
use discret::verif::security::{HardwareFingerprint, Uid};
use discret::verif::synchronisation::peer_inbound_service::{LocalPeerService, QueryService};
use discret::verif::synchronisation::peer_outbound_service::{
    InboundQueryService, RemotePeerHandle,
};
use discret::verif::synchronisation::{Answer, Query, QueryProtocol};
use serde::Serialize;
use std::collections::{BTreeMap, HashMap, HashSet};
use std::sync::atomic::AtomicBool;
use std::sync::Arc;
use tokio::sync::{mpsc, Mutex};

pub fn query_kind(q: &Query) -> &'static str {
    match q {
        Query::ProveIdentity(_) => "ProveIdentity",
        Query::HardwareFingerprint() => "HardwareFingerprint",
        Query::RoomList => "RoomList",
        Query::RoomDefinition(_) => "RoomDefinition",
        Query::RoomNode(_) => "RoomNode",
        Query::RoomLog(_) => "RoomLog",
        Query::RoomLogAt(_, _) => "RoomLogAt",
        Query::EdgeDeletionLog(_, _, _) => "EdgeDeletionLog",
        Query::NodeDeletionLog(_, _, _) => "NodeDeletionLog",
        Query::RoomDailyNodes(_, _, _) => "RoomDailyNodes",
        Query::Nodes(_, _) => "Nodes",
        Query::Edges(_, _) => "Edges",
        Query::PeersForRoom(_) => "PeersForRoom",
    }
}

/// a PeerConnectionService whose messages are only counted
pub fn fake_peer_service() -> (PeerConnectionService, mpsc::UnboundedReceiver<String>) {
    let (sender, mut receiver) = mpsc::channel::<PeerConnectionMessage>(64);
    let (log_tx, log_rx) = mpsc::unbounded_channel();
    tokio::spawn(async move {
        while let Some(m) = receiver.recv().await {
            let k = match m {
                PeerConnectionMessage::NewPeer(p) => format!("NewPeer({})", p.len()),
                PeerConnectionMessage::PeerConnected(_, _) => "PeerConnected".to_string(),
                PeerConnectionMessage::PeerDisconnected(_, _, _) => "PeerDisconnected".to_string(),
                PeerConnectionMessage::InviteAccepted(_, _) => "InviteAccepted".to_string(),
                _ => "other".to_string(),
            };
            let _ = log_tx.send(k);
        }
    });
    (PeerConnectionService { sender }, log_rx)
}

#[derive(Default, Debug, Clone)]
pub struct PullStats {
    pub requests: BTreeMap<String, usize>,
    pub nodes: usize,
    pub edges: usize,
    pub node_deletions: usize,
    pub edge_deletions: usize,
    pub room_nodes: usize,
    pub error: Option<String>,
    pub cut: bool,
}
impl PullStats {
    /// rows (nodes, references, deletion records, room definitions) carried by the answers
    pub fn transferred(&self) -> usize {
        self.nodes + self.edges + self.node_deletions + self.edge_deletions + self.room_nodes
    }
}

#[derive(Default, Clone)]
pub struct PullOpts {
    /// cut the connection after that many data carrying answers (interruption between batches)
    pub cut_after_answers: Option<usize>,
}

fn count_answer(kind: &str, a: &Answer, stats: &mut PullStats) -> bool {
    if !a.success {
        return false;
    }
    let single = matches!(kind, "RoomNode" | "RoomDefinition" | "RoomLogAt");
    if !single && a.complete {
        // final empty marker of a multi part answer
        return false;
    }
    match kind {
        "Nodes" => {
            if let Ok(v) = bincode::deserialize::<Vec<Node>>(&a.serialized) {
                stats.nodes += v.len();
                return !v.is_empty();
            }
        }
        "Edges" => {
            if let Ok(v) = bincode::deserialize::<Vec<Edge>>(&a.serialized) {
                stats.edges += v.len();
                return !v.is_empty();
            }
        }
        "NodeDeletionLog" => {
            if let Ok(v) = bincode::deserialize::<Vec<NodeDeletionEntry>>(&a.serialized) {
                stats.node_deletions += v.len();
                return !v.is_empty();
            }
        }
        "EdgeDeletionLog" => {
            if let Ok(v) = bincode::deserialize::<Vec<EdgeDeletionEntry>>(&a.serialized) {
                stats.edge_deletions += v.len();
                return !v.is_empty();
            }
        }
        "RoomNode" => {
            if let Ok(Some(_)) = bincode::deserialize::<Option<RoomNode>>(&a.serialized) {
                stats.room_nodes += 1;
                return true;
            }
        }
        _ => {}
    }
    false
}

/// `dst` pulls `room` from `src` through the library's own serving code
pub async fn pull(dst: &Peer, src: &Peer, room: Uid, opts: PullOpts) -> PullStats {
    let (q_tx, q_rx) = mpsc::channel::<QueryProtocol>(16);
    let (a_tx, a_rx) = mpsc::channel::<Answer>(16);
    let (fake_ps, _log) = fake_peer_service();
    let mut allowed = HashSet::new();
    allowed.insert(room);
    let handle = RemotePeerHandle {
        allowed_room: allowed,
        db: src.db.clone(),
        verifying_key: src.id.vkey.clone(),
        reply: a_tx,
    };
    let inbound = InboundQueryService::start(
        HardwareFingerprint {
            id: [1; 16],
            name: "dv".to_string(),
        },
        [7; 32],
        [9; 16],
        handle,
        q_rx,
        fake_ps.clone(),
        Arc::new(Mutex::new(dst.id.vkey.clone())),
        Arc::new(AtomicBool::new(true)),
    );
    let stats = pull_over(dst, room, q_tx, a_rx, opts).await;
    drop(inbound);
    stats
}

/// runs the library's synchronise_room on `dst`, with a counting proxy in front of the given
/// query / answer channels of the serving side
pub async fn pull_over(
    dst: &Peer,
    room: Uid,
    server_q_tx: mpsc::Sender<QueryProtocol>,
    mut server_a_rx: mpsc::Receiver<Answer>,
    opts: PullOpts,
) -> PullStats {
    let (q_tx, mut q_rx) = mpsc::channel::<QueryProtocol>(16);
    let (a_tx, a_rx) = mpsc::channel::<Answer>(16);
    let stats = Arc::new(std::sync::Mutex::new(PullStats::default()));
    let stats2 = stats.clone();
    let proxy = tokio::spawn(async move {
        let mut kinds: HashMap<u64, &'static str> = HashMap::new();
        let mut data_answers = 0usize;
        loop {
            tokio::select! {
                q = q_rx.recv() => {
                    match q {
                        Some(q) => {
                            let k = query_kind(&q.query);
                            kinds.insert(q.id, k);
                            *stats2.lock().unwrap().requests.entry(k.to_string()).or_insert(0) += 1;
                            if server_q_tx.send(q).await.is_err() { break; }
                        }
                        None => break,
                    }
                }
                a = server_a_rx.recv() => {
                    match a {
                        Some(a) => {
                            let kind = kinds.get(&a.id).copied().unwrap_or("?");
                            let carried = {
                                let mut st = stats2.lock().unwrap();
                                count_answer(kind, &a, &mut st)
                            };
                            if carried { data_answers += 1; }
                            if a_tx.send(a).await.is_err() { break; }
                            if let Some(k) = opts.cut_after_answers {
                                if carried && data_answers >= k {
                                    stats2.lock().unwrap().cut = true;
                                    break;
                                }
                            }
                        }
                        None => break,
                    }
                }
            }
        }
    });
    let query_service = QueryService::start(q_tx, a_rx);
    let (fake_ps, _log) = fake_peer_service();
    let services = dst.services();
    let res =
        LocalPeerService::verif_synchronise_room(room, &query_service, fake_ps, &services).await;
    drop(query_service);
    proxy.abort();
    let mut st = stats.lock().unwrap().clone();
    if let Err(e) = res {
        st.error = Some(e.to_string());
    }
    // make sure the recompute requested by the pull has run
    dst.barrier().await;
    st
}

/// Content a harness controlled (possibly malicious) serving peer answers with.
#[derive(Default)]
pub struct FakeServer {
    pub room_definition: Option<RoomDefinitionLog>,
    pub room_node: Option<RoomNode>,
    pub room_log: Vec<DailyLog>,
    /// (entity short name, day) -> records
    pub edge_deletions: HashMap<(String, i64), Vec<EdgeDeletionEntry>>,
    pub node_deletions: HashMap<(String, i64), Vec<NodeDeletionEntry>>,
    pub daily_nodes: HashMap<(String, i64), Vec<NodeIdentifier>>,
    pub nodes: HashMap<Uid, Node>,
    /// answered to any Edges request whose node list contains the source id
    pub edges: Vec<Edge>,
    pub peers: Vec<Node>,
    /// record of the requests received
    pub seen: Arc<std::sync::Mutex<Vec<String>>>,
    /// applied to every answer before it is sent (query kind, answer)
    pub mangle: Option<Arc<dyn Fn(&str, &mut Answer) + Send + Sync>>,
}

fn ans<T: Serialize>(id: u64, success: bool, complete: bool, v: &T) -> Answer {
    Answer {
        id,
        success,
        complete,
        serialized: bincode::serialize(v).unwrap(),
    }
}

impl FakeServer {
    /// serves until the query channel closes
    pub fn start(self) -> (mpsc::Sender<QueryProtocol>, mpsc::Receiver<Answer>) {
        let (q_tx, mut q_rx) = mpsc::channel::<QueryProtocol>(16);
        let (a_tx, a_rx) = mpsc::channel::<Answer>(16);
        tokio::spawn(async move {
            while let Some(q) = q_rx.recv().await {
                let id = q.id;
                let kind = query_kind(&q.query);
                self.seen
                    .lock()
                    .unwrap()
                    .push(query_kind(&q.query).to_string());
                let mut out: Vec<Answer> = Vec::new();
                match q.query {
                    Query::RoomDefinition(_) => {
                        out.push(ans(id, true, true, &self.room_definition_clone()));
                    }
                    Query::RoomNode(_) => {
                        out.push(ans(id, true, true, &self.room_node));
                    }
                    Query::RoomLog(_) => {
                        out.push(ans(id, true, false, &self.room_log));
                        out.push(ans(id, true, true, &""));
                    }
                    Query::RoomLogAt(_, date) => {
                        let v: Vec<&DailyLog> =
                            self.room_log.iter().filter(|l| l.date == date).collect();
                        out.push(ans(id, true, true, &v));
                    }
                    Query::EdgeDeletionLog(_, entity, date) => {
                        if let Some(v) = self.edge_deletions.get(&(entity, date)) {
                            out.push(ans(id, true, false, v));
                        }
                        out.push(ans(id, true, true, &""));
                    }
                    Query::NodeDeletionLog(_, entity, date) => {
                        if let Some(v) = self.node_deletions.get(&(entity, date)) {
                            out.push(ans(id, true, false, v));
                        }
                        out.push(ans(id, true, true, &""));
                    }
                    Query::RoomDailyNodes(_, entity, date) => {
                        if let Some(v) = self.daily_nodes.get(&(entity, date)) {
                            // the wire type is a HashSet<NodeIdentifier>; a Vec has the same encoding
                            out.push(ans(id, true, false, v));
                        }
                        out.push(ans(id, true, true, &""));
                    }
                    Query::Nodes(_, ids) => {
                        let v: Vec<&Node> =
                            ids.iter().filter_map(|i| self.nodes.get(i)).collect();
                        out.push(ans(id, true, false, &v));
                        out.push(ans(id, true, true, &""));
                    }
                    Query::Edges(_, srcs) => {
                        let set: HashSet<Uid> = srcs.iter().map(|s| s.0).collect();
                        let v: Vec<&Edge> =
                            self.edges.iter().filter(|e| set.contains(&e.src)).collect();
                        out.push(ans(id, true, false, &v));
                        out.push(ans(id, true, true, &""));
                    }
                    Query::PeersForRoom(_) => {
                        out.push(ans(id, true, false, &self.peers));
                        out.push(ans(id, true, true, &""));
                    }
                    _ => {
                        out.push(ans(
                            id,
                            false,
                            true,
                            &discret::verif::synchronisation::Error::Technical,
                        ));
                    }
                }
                for mut a in out {
                    if let Some(m) = &self.mangle {
                        m(kind, &mut a);
                    }
                    if a_tx.send(a).await.is_err() {
                        return;
                    }
                }
            }
        });
        (q_tx, a_rx)
    }

    fn room_definition_clone(&self) -> Option<RoomDefinitionLog> {
        self.room_definition.as_ref().map(|d| RoomDefinitionLog {
            room_id: d.room_id,
            room_def_date: d.room_def_date,
            last_data_date: d.last_data_date,
            entry_number: d.entry_number,
            daily_hash: d.daily_hash.clone(),
            history_hash: d.history_hash.clone(),
        })
    }
}

/// rows a harness controlled serving peer offers for one room
#[derive(Default)]
pub struct Batch {
    pub nodes: Vec<Node>,
    pub edges: Vec<Edge>,
    pub node_dels: Vec<NodeDeletionEntry>,
    pub edge_dels: Vec<EdgeDeletionEntry>,
}

/// the victim pulls `room` from a FakeServer offering the batch; the daily log announces every row
pub async fn serve_batch(
    victim: &Peer,
    room: Uid,
    batch: &Batch,
    rng: &mut rand::rngs::StdRng,
    mangle: Option<Arc<dyn Fn(&str, &mut Answer) + Send + Sync>>,
) -> Result<PullStats, String> {
    use crate::util::day_of;
    use rand::Rng;
    let local = victim
        .db
        .get_room_definition(room)
        .await
        .map_err(|e| e.to_string())?
        .ok_or("victim does not know the room")?;
    let mut fs = FakeServer::default();
    fs.mangle = mangle;
    let mut days: HashMap<(String, i64), u32> = HashMap::new();
    let mut max_day = 0;
    for n in &batch.nodes {
        let k = (n._entity.clone(), day_of(n.mdate));
        *days.entry(k.clone()).or_insert(0) += 1;
        fs.daily_nodes.entry(k).or_default().push(NodeIdentifier {
            id: n.id,
            mdate: n.mdate,
            signature: n._signature.clone(),
        });
        fs.nodes.insert(n.id, n.clone());
        max_day = max_day.max(day_of(n.mdate));
    }
    for e in &batch.edges {
        fs.edges.push(e.clone());
        if !fs.nodes.contains_key(&e.src) {
            let k = (e.src_entity.clone(), day_of(e.cdate));
            *days.entry(k.clone()).or_insert(0) += 1;
            let mut sig = vec![0u8; 64];
            rng.fill(&mut sig[..]);
            fs.daily_nodes.entry(k).or_default().push(NodeIdentifier {
                id: e.src,
                mdate: e.cdate.saturating_add(1_000_000_000),
                signature: sig,
            });
            max_day = max_day.max(day_of(e.cdate));
        }
    }
    for d in &batch.node_dels {
        let k = (d.entity.clone(), day_of(d.deletion_date));
        *days.entry(k.clone()).or_insert(0) += 1;
        fs.node_deletions.entry(k).or_default().push(NodeDeletionEntry {
            room_id: d.room_id,
            id: d.id,
            entity: d.entity.clone(),
            mdate: d.mdate,
            deletion_date: d.deletion_date,
            verifying_key: d.verifying_key.clone(),
            signature: d.signature.clone(),
            entity_name: None,
            enable_full_text: false,
        });
        max_day = max_day.max(day_of(d.deletion_date));
    }
    for d in &batch.edge_dels {
        let k = (d.src_entity.clone(), day_of(d.deletion_date));
        *days.entry(k.clone()).or_insert(0) += 1;
        fs.edge_deletions.entry(k).or_default().push(EdgeDeletionEntry {
            room_id: d.room_id,
            src: d.src,
            src_entity: d.src_entity.clone(),
            dest: d.dest,
            label: d.label.clone(),
            cdate: d.cdate,
            deletion_date: d.deletion_date,
            verifying_key: d.verifying_key.clone(),
            signature: d.signature.clone(),
            entity_name: None,
        });
        max_day = max_day.max(day_of(d.deletion_date));
    }
    for ((entity, day), n) in &days {
        let mut h = vec![0u8; 32];
        rng.fill(&mut h[..]);
        fs.room_log.push(DailyLog {
            room_id: room,
            date: *day,
            entity: entity.clone(),
            entry_number: *n,
            daily_hash: Some(h),
            history_hash: None,
            need_recompute: false,
        });
    }
    fs.room_definition = Some(RoomDefinitionLog {
        room_id: room,
        room_def_date: local.room_def_date,
        last_data_date: Some(max_day),
        entry_number: Some(1),
        daily_hash: Some(vec![1; 32]),
        history_hash: None,
    });
    let (q, a) = fs.start();
    Ok(pull_over(victim, room, q, a, PullOpts::default()).await)
}
