//! Room construction and edition through the public mutation API, mirrored into the rights model.
use crate::peer::Peer;
use crate::rights::{GroupModel, Key, RightEntry, RoomModel, UserEntry};
use crate::util::{b64, short};
use discret::verif::security::Uid;
use discret::{Parameters, ParametersAdd};
use serde_json::{json, Value};

/// data model used by most workloads: two entities with a self reference array, an entity
/// reference, and one namespaced entity
pub const MODEL: &str = "{
    Person{ name:String, nick:String nullable, parents:[Person], pet:Pet nullable }
    Pet{ name:String }
}
ns {
    Thing{ label:String }
}";

pub const ENTITIES: &[&str] = &["Person", "Pet", "ns.Thing"];

#[derive(Clone, Debug)]
pub struct RightSpec {
    pub entity: String,
    pub own: bool,
    pub all: bool,
}

#[derive(Clone, Debug, Default)]
pub struct GroupSpec {
    pub name: String,
    pub users: Vec<(Key, bool)>,
    pub user_admins: Vec<(Key, bool)>,
    pub rights: Vec<RightSpec>,
}

#[derive(Clone, Debug, Default)]
pub struct RoomSpec {
    pub admins: Vec<(Key, bool)>,
    pub groups: Vec<GroupSpec>,
}

/// a room as the harness knows it: identifiers and the model of its definition
#[derive(Clone, Debug)]
pub struct RoomHandle {
    pub id: Uid,
    pub groups: Vec<Uid>,
    pub model: RoomModel,
}
impl RoomHandle {
    pub fn id64(&self) -> String {
        b64(&self.id)
    }
    pub fn gid(&self, i: usize) -> String {
        short(&self.groups[i])
    }
}

#[derive(Clone, Debug)]
pub enum RoomEdit {
    Admin(Key, bool),
    User(usize, Key, bool),
    UserAdmin(usize, Key, bool),
    Right(usize, RightSpec),
    NewGroup(GroupSpec),
}
impl RoomEdit {
    pub fn describe(&self) -> Value {
        match self {
            RoomEdit::Admin(k, e) => json!({"admin": short(k), "enabled": e}),
            RoomEdit::User(g, k, e) => json!({"group": g, "user": short(k), "enabled": e}),
            RoomEdit::UserAdmin(g, k, e) => {
                json!({"group": g, "user_admin": short(k), "enabled": e})
            }
            RoomEdit::Right(g, r) => {
                json!({"group": g, "right": r.entity, "own": r.own, "all": r.all})
            }
            RoomEdit::NewGroup(g) => json!({"new_group": g.name, "users": g.users.len(), "rights": g.rights.iter().map(|r| format!("{}:{}{}", r.entity, r.own as u8, r.all as u8)).collect::<Vec<_>>()}),
        }
    }
    pub fn kind(&self) -> &'static str {
        match self {
            RoomEdit::Admin(_, _) => "admin",
            RoomEdit::User(_, _, _) => "user",
            RoomEdit::UserAdmin(_, _, _) => "user_admin",
            RoomEdit::Right(_, _) => "right",
            RoomEdit::NewGroup(_) => "new_group",
        }
    }
}

fn users_text(prefix: &str, users: &[(Key, bool)], p: &mut Parameters) -> String {
    let mut s = String::new();
    for (i, (k, e)) in users.iter().enumerate() {
        let kn = format!("{}k{}", prefix, i);
        let en = format!("{}e{}", prefix, i);
        p.add(&kn, b64(k)).unwrap();
        p.add(&en, *e).unwrap();
        if i > 0 {
            s.push(',');
        }
        s.push_str(&format!("{{verif_key:${} enabled:${}}}", kn, en));
    }
    s
}

fn rights_text(prefix: &str, rights: &[RightSpec], p: &mut Parameters) -> String {
    let mut s = String::new();
    for (i, r) in rights.iter().enumerate() {
        let n = format!("{}r{}", prefix, i);
        p.add(&format!("{}n", n), r.entity.clone()).unwrap();
        p.add(&format!("{}s", n), r.own).unwrap();
        p.add(&format!("{}a", n), r.all).unwrap();
        if i > 0 {
            s.push(',');
        }
        s.push_str(&format!(
            "{{entity:${}n mutate_self:${}s mutate_all:${}a}}",
            n, n, n
        ));
    }
    s
}

fn group_text(prefix: &str, g: &GroupSpec, id: Option<&Uid>, p: &mut Parameters) -> String {
    let mut s = String::from("{");
    if let Some(id) = id {
        p.add(&format!("{}id", prefix), b64(id)).unwrap();
        s.push_str(&format!("id:${}id ", prefix));
    } else {
        p.add(&format!("{}name", prefix), g.name.clone()).unwrap();
        s.push_str(&format!("name:${}name ", prefix));
    }
    if !g.rights.is_empty() {
        s.push_str(&format!(
            "rights:[{}] ",
            rights_text(&format!("{}R", prefix), &g.rights, p)
        ));
    }
    if !g.users.is_empty() {
        s.push_str(&format!(
            "users:[{}] ",
            users_text(&format!("{}U", prefix), &g.users, p)
        ));
    }
    if !g.user_admins.is_empty() {
        s.push_str(&format!(
            "user_admin:[{}] ",
            users_text(&format!("{}A", prefix), &g.user_admins, p)
        ));
    }
    s.push('}');
    s
}

pub fn group_model(g: &GroupSpec, date: i64) -> GroupModel {
    GroupModel {
        users: g
            .users
            .iter()
            .map(|(k, e)| UserEntry {
                key: k.clone(),
                date,
                enabled: *e,
            })
            .collect(),
        user_admins: g
            .user_admins
            .iter()
            .map(|(k, e)| UserEntry {
                key: k.clone(),
                date,
                enabled: *e,
            })
            .collect(),
        rights: g
            .rights
            .iter()
            .map(|r| RightEntry {
                entity: r.entity.clone(),
                date,
                own: r.own,
                all: r.all,
            })
            .collect(),
    }
}

impl Peer {
    /// creates a room through the mutation API; the model is dated with the mutation's own date
    pub async fn create_room(&self, spec: &RoomSpec) -> Result<RoomHandle, String> {
        let mut p = Parameters::new();
        let mut text = String::from("mutate { sys.Room{ ");
        if !spec.admins.is_empty() {
            text.push_str(&format!("admin:[{}] ", users_text("ad", &spec.admins, &mut p)));
        }
        if !spec.groups.is_empty() {
            text.push_str("authorisations:[");
            for (i, g) in spec.groups.iter().enumerate() {
                if i > 0 {
                    text.push(',');
                }
                text.push_str(&group_text(&format!("g{}", i), g, None, &mut p));
                text.push(' ');
            }
            text.push_str("] ");
        }
        text.push_str("} }");
        let res = self
            .mutate_raw(&text, Some(p))
            .await
            .map_err(|e| e.to_string())?;
        let date = res.date;
        let room_ins = &res.mutate_entities[0];
        let id = room_ins.node_to_mutate.id;
        let mut groups = Vec::new();
        if let Some(auths) = room_ins.sub_nodes.get("authorisations") {
            for a in auths {
                groups.push(a.node_to_mutate.id);
            }
        }
        let mut model = RoomModel::default();
        for (k, e) in &spec.admins {
            model.admins.push(UserEntry {
                key: k.clone(),
                date,
                enabled: *e,
            });
        }
        for (i, g) in spec.groups.iter().enumerate() {
            model.groups.insert(short(&groups[i]), group_model(g, date));
        }
        Ok(RoomHandle { id, groups, model })
    }

    /// applies an edit to a room through the mutation API; on success mirrors it in the handle
    pub async fn edit_room(&self, room: &mut RoomHandle, edit: &RoomEdit) -> Result<i64, String> {
        let mut p = Parameters::new();
        p.add("room", room.id64()).unwrap();
        let body = match edit {
            RoomEdit::Admin(k, e) => {
                format!("admin:[{}]", users_text("ad", &[(k.clone(), *e)], &mut p))
            }
            RoomEdit::User(g, k, e) => {
                let spec = GroupSpec {
                    users: vec![(k.clone(), *e)],
                    ..Default::default()
                };
                format!(
                    "authorisations:[{}]",
                    group_text("g", &spec, Some(&room.groups[*g]), &mut p)
                )
            }
            RoomEdit::UserAdmin(g, k, e) => {
                let spec = GroupSpec {
                    user_admins: vec![(k.clone(), *e)],
                    ..Default::default()
                };
                format!(
                    "authorisations:[{}]",
                    group_text("g", &spec, Some(&room.groups[*g]), &mut p)
                )
            }
            RoomEdit::Right(g, r) => {
                let spec = GroupSpec {
                    rights: vec![r.clone()],
                    ..Default::default()
                };
                format!(
                    "authorisations:[{}]",
                    group_text("g", &spec, Some(&room.groups[*g]), &mut p)
                )
            }
            RoomEdit::NewGroup(gs) => {
                format!("authorisations:[{}]", group_text("g", gs, None, &mut p))
            }
        };
        let text = format!("mutate {{ sys.Room{{ id:$room {} }} }}", body);
        let res = self
            .mutate_raw(&text, Some(p))
            .await
            .map_err(|e| e.to_string())?;
        let date = res.date;
        if let RoomEdit::NewGroup(_) = edit {
            let room_ins = &res.mutate_entities[0];
            if let Some(auths) = room_ins.sub_nodes.get("authorisations") {
                room.groups.push(auths[0].node_to_mutate.id);
            }
        }
        apply_edit_to_model(room, edit, date);
        Ok(date)
    }
}

pub fn apply_edit_to_model(room: &mut RoomHandle, edit: &RoomEdit, date: i64) {
    match edit {
        RoomEdit::Admin(k, e) => room.model.admins.push(UserEntry {
            key: k.clone(),
            date,
            enabled: *e,
        }),
        RoomEdit::User(g, k, e) => {
            let gid = room.gid(*g);
            room.model
                .groups
                .get_mut(&gid)
                .unwrap()
                .users
                .push(UserEntry {
                    key: k.clone(),
                    date,
                    enabled: *e,
                })
        }
        RoomEdit::UserAdmin(g, k, e) => {
            let gid = room.gid(*g);
            room.model
                .groups
                .get_mut(&gid)
                .unwrap()
                .user_admins
                .push(UserEntry {
                    key: k.clone(),
                    date,
                    enabled: *e,
                })
        }
        RoomEdit::Right(g, r) => {
            let gid = room.gid(*g);
            room.model
                .groups
                .get_mut(&gid)
                .unwrap()
                .rights
                .push(RightEntry {
                    entity: r.entity.clone(),
                    date,
                    own: r.own,
                    all: r.all,
                })
        }
        RoomEdit::NewGroup(gs) => {
            let gid = short(room.groups.last().unwrap());
            room.model.groups.insert(gid, group_model(gs, date));
        }
    }
}

/// simple room: one group "all", every given key is a user with the given rights; first key admin
pub fn open_room_spec(keys: &[Key], entities: &[&str], all: bool) -> RoomSpec {
    RoomSpec {
        admins: vec![(keys[0].clone(), true)],
        groups: vec![GroupSpec {
            name: "all".to_string(),
            users: keys.iter().map(|k| (k.clone(), true)).collect(),
            user_admins: vec![],
            rights: entities
                .iter()
                .map(|e| RightSpec {
                    entity: e.to_string(),
                    own: true,
                    all,
                })
                .collect(),
        }],
    }
}
