//! Independent rights model: a room is a bag of dated entries; decisions are looked up by date.
//! Written from the documented semantics (room.rs doc comments), not from the implementation's
//! data structures: entries are kept unsorted and the entry in force at a date is the one with the
//! greatest date <= that date (the latest inserted among equal dates).
use serde_json::{json, Value};
use std::collections::BTreeMap;

pub type Key = Vec<u8>;

#[derive(Clone, Debug, PartialEq, Eq)]
pub struct UserEntry {
    pub key: Key,
    pub date: i64,
    pub enabled: bool,
}

#[derive(Clone, Debug, PartialEq, Eq)]
pub struct RightEntry {
    pub entity: String,
    pub date: i64,
    pub own: bool,
    pub all: bool,
}

#[derive(Clone, Debug, Default, PartialEq, Eq)]
pub struct GroupModel {
    pub users: Vec<UserEntry>,
    pub user_admins: Vec<UserEntry>,
    pub rights: Vec<RightEntry>,
}

#[derive(Clone, Debug, Default, PartialEq, Eq)]
pub struct RoomModel {
    pub admins: Vec<UserEntry>,
    /// group id (base64 or any stable label) -> group
    pub groups: BTreeMap<String, GroupModel>,
}

#[derive(Clone, Copy, Debug, PartialEq, Eq, PartialOrd, Ord)]
pub enum Right {
    Own,
    All,
}

fn in_force<'a>(entries: &'a [UserEntry], key: &[u8], date: i64) -> Option<&'a UserEntry> {
    let mut best: Option<&UserEntry> = None;
    for e in entries {
        if e.key == key && e.date <= date {
            match best {
                Some(b) if b.date > e.date => {}
                _ => best = Some(e),
            }
        }
    }
    best
}

fn enabled_at(entries: &[UserEntry], key: &[u8], date: i64) -> bool {
    in_force(entries, key, date).map(|e| e.enabled).unwrap_or(false)
}

impl GroupModel {
    pub fn right_at(&self, entity: &str, date: i64) -> Option<&RightEntry> {
        let mut best: Option<&RightEntry> = None;
        for r in &self.rights {
            if r.entity == entity && r.date <= date {
                match best {
                    Some(b) if b.date > r.date => {}
                    _ => best = Some(r),
                }
            }
        }
        best
    }
    /// the right in force for the entity, falling back to the wildcard when the entity has no entry
    pub fn grants(&self, entity: &str, date: i64, right: Right) -> bool {
        let r = match self.right_at(entity, date) {
            Some(r) => Some(r),
            None => self.right_at("*", date),
        };
        match r {
            Some(r) => match right {
                // all-rows implies own-rows (documented normalisation)
                Right::Own => r.own || r.all,
                Right::All => r.all,
            },
            None => false,
        }
    }
    pub fn is_user(&self, key: &[u8], date: i64) -> bool {
        enabled_at(&self.users, key, date)
    }
    pub fn is_user_admin(&self, key: &[u8], date: i64) -> bool {
        enabled_at(&self.user_admins, key, date)
    }
    pub fn is_member(&self, key: &[u8], date: i64) -> bool {
        self.is_user(key, date) || self.is_user_admin(key, date)
    }
}

impl RoomModel {
    pub fn is_admin(&self, key: &[u8], date: i64) -> bool {
        enabled_at(&self.admins, key, date)
    }
    pub fn is_member(&self, key: &[u8], date: i64) -> bool {
        self.is_admin(key, date) || self.groups.values().any(|g| g.is_member(key, date))
    }
    /// can `key` exercise `right` on `entity` at `date`
    pub fn can(&self, key: &[u8], entity: &str, date: i64, right: Right) -> bool {
        let admin = self.is_admin(key, date);
        self.groups
            .values()
            .any(|g| (admin || g.is_member(key, date)) && g.grants(entity, date, right))
    }
    pub fn all_keys(&self) -> Vec<Key> {
        let mut v: Vec<Key> = Vec::new();
        let mut push = |k: &Key| {
            if !v.contains(k) {
                v.push(k.clone())
            }
        };
        for a in &self.admins {
            push(&a.key);
        }
        for g in self.groups.values() {
            for u in g.users.iter().chain(g.user_admins.iter()) {
                push(&u.key);
            }
        }
        v
    }
    pub fn all_dates(&self) -> Vec<i64> {
        let mut v: Vec<i64> = Vec::new();
        for a in &self.admins {
            v.push(a.date);
        }
        for g in self.groups.values() {
            for u in g.users.iter().chain(g.user_admins.iter()) {
                v.push(u.date);
            }
            for r in &g.rights {
                v.push(r.date);
            }
        }
        v.sort();
        v.dedup();
        v
    }
    pub fn all_entities(&self) -> Vec<String> {
        let mut v: Vec<String> = Vec::new();
        for g in self.groups.values() {
            for r in &g.rights {
                if r.entity != "*" && !v.contains(&r.entity) {
                    v.push(r.entity.clone());
                }
            }
        }
        v
    }
    pub fn describe(&self) -> Value {
        let u = |e: &UserEntry| json!({"key": crate::util::short(&e.key), "date": e.date, "enabled": e.enabled});
        json!({
            "admins": self.admins.iter().map(u).collect::<Vec<_>>(),
            "groups": self.groups.iter().map(|(id, g)| json!({
                "id": id,
                "users": g.users.iter().map(u).collect::<Vec<_>>(),
                "user_admins": g.user_admins.iter().map(u).collect::<Vec<_>>(),
                "rights": g.rights.iter().map(|r| json!({"entity": r.entity, "date": r.date, "own": r.own, "all": r.all})).collect::<Vec<_>>(),
            })).collect::<Vec<_>>()
        })
    }
}

/// decision matrix of a live `Room` (the implementation) over the given axes, as canonical strings
pub fn matrix_of_room(
    room: &discret::Room,
    keys: &[Key],
    entities: &[String],
    dates: &[i64],
) -> Vec<String> {
    use discret::verif::database::room::RightType;
    let mut out = Vec::new();
    for (ki, k) in keys.iter().enumerate() {
        for d in dates {
            out.push(format!("k{} admin@{}={}", ki, d, room.is_admin(k, *d)));
            out.push(format!(
                "k{} member@{}={}",
                ki,
                d,
                room.is_user_valid_at(k, *d)
            ));
            for (gid, g) in &room.authorisations {
                out.push(format!(
                    "k{} useradmin[{}]@{}={}",
                    ki,
                    crate::util::short(gid),
                    d,
                    g.can_admin_users(k, *d)
                ));
            }
            for e in entities {
                out.push(format!(
                    "k{} own {}@{}={}",
                    ki,
                    e,
                    d,
                    room.can(k, e, *d, &RightType::MutateSelf)
                ));
                out.push(format!(
                    "k{} all {}@{}={}",
                    ki,
                    e,
                    d,
                    room.can(k, e, *d, &RightType::MutateAll)
                ));
            }
        }
    }
    out
}

/// decision matrix of the model over the same axes; group ids must be the same labels as
/// `short(group uid)` for the user-admin rows to be comparable
pub fn matrix_of_model(
    model: &RoomModel,
    keys: &[Key],
    entities: &[String],
    dates: &[i64],
) -> Vec<String> {
    let mut out = Vec::new();
    for (ki, k) in keys.iter().enumerate() {
        for d in dates {
            out.push(format!("k{} admin@{}={}", ki, d, model.is_admin(k, *d)));
            out.push(format!("k{} member@{}={}", ki, d, model.is_member(k, *d)));
            for (gid, g) in &model.groups {
                out.push(format!(
                    "k{} useradmin[{}]@{}={}",
                    ki,
                    gid,
                    d,
                    g.is_user_admin(k, *d)
                ));
            }
            for e in entities {
                out.push(format!(
                    "k{} own {}@{}={}",
                    ki,
                    e,
                    d,
                    model.can(k, e, *d, Right::Own)
                ));
                out.push(format!(
                    "k{} all {}@{}={}",
                    ki,
                    e,
                    d,
                    model.can(k, e, *d, Right::All)
                ));
            }
        }
    }
    out
}
