//! Replication scenario engine shared by C03, C09, C11, C17, C18: several real database services,
//! one shared room, API operations on any peer, directed pulls in any order, a logical clock.
use crate::peer::{small_config, Peer};
use crate::snapshot::{edge_sig, node_sig, Snapshot};
use crate::sync::{pull, PullOpts, PullStats};
use crate::util::{b64, clock_set, clock_step, DAY, T0};
use crate::world::{open_room_spec, RoomHandle, MODEL};
use discret::verif::security::Uid;
use discret::{Parameters, ParametersAdd};
use rand::rngs::StdRng;
use rand::Rng;
use serde_json::{json, Value};
use std::collections::{BTreeMap, BTreeSet};
use std::path::Path;

pub const PERSON: &str = "0.0"; // placeholder, real short names are read from the peers
pub struct Scenario {
    pub peers: Vec<Peer>,
    pub room: RoomHandle,
    /// second room with the same members, used by workloads that move rows between rooms
    pub room2: Option<RoomHandle>,
    pub t: i64,
    /// rows created through the API: (id, entity name)
    pub rows: Vec<(Uid, String)>,
    pub log: Vec<Value>,
    pub counter: u64,
}

#[derive(Clone, Debug)]
pub enum Op {
    Create { peer: usize, entity: usize },
    CreateNested { peer: usize },
    Update { peer: usize, row: usize },
    /// update of a row through the row that refers to it, which itself does not change:
    /// Person{ id pet:{ id name } } or Person{ id parents:[{ id name }] } over an existing reference
    UpdateThroughParent { peer: usize, row: usize },
    SetPet { peer: usize, row: usize, pet: usize },
    ClearPet { peer: usize, row: usize },
    AddParent { peer: usize, row: usize, parent: usize },
    ClearParents { peer: usize, row: usize },
    DeleteNode { peer: usize, row: usize },
    DeleteRef { peer: usize, row: usize, parent: usize },
    Tick(i64),
    /// update that also moves the row to the other room (needs `room2`)
    Move { peer: usize, row: usize, to_second: bool },
    /// n rows created through the mutation stream (one recompute request at the end)
    StreamCreate { peer: usize, n: usize },
    /// pull of the second room
    Pull2 { dst: usize, src: usize },
    Pull { dst: usize, src: usize, cut: Option<usize> },
    PullBoth { a: usize, b: usize },
}

impl Op {
    pub fn describe(&self) -> String {
        format!("{:?}", self)
    }
    pub fn is_pull(&self) -> bool {
        matches!(self, Op::Pull { .. } | Op::PullBoth { .. })
    }
}

#[derive(Debug, Clone)]
pub enum OpOutcome {
    Accepted,
    Refused(String),
    Pulled(Vec<PullStats>),
    Ticked,
}

impl Scenario {
    /// starts `n` peers, creates a room on peer 0 where every peer may write every entity
    /// (own and foreign rows), and lets every other peer pull it from peer 0
    pub async fn new(dir: &Path, seed: u64, n: usize, all_rights: bool) -> Result<Self, String> {
        clock_set(T0);
        clock_step(0);
        let mut peers = Vec::new();
        for i in 0..n {
            let p = Peer::start(
                &format!("p{}", i),
                seed,
                i as u64,
                MODEL,
                &dir.join(format!("peer{}", i)),
                small_config(),
            )
            .await?;
            peers.push(p);
        }
        let keys: Vec<Vec<u8>> = peers.iter().map(|p| p.id.vkey.clone()).collect();
        let spec = open_room_spec(&keys, &["Person", "Pet", "ns.Thing"], all_rights);
        let room = peers[0].create_room(&spec).await?;
        let mut s = Self {
            peers,
            room,
            room2: None,
            t: T0,
            rows: Vec::new(),
            log: Vec::new(),
            counter: 0,
        };
        s.tick(1);
        for i in 1..n {
            let st = pull(&s.peers[i], &s.peers[0], s.room.id, PullOpts::default()).await;
            if let Some(e) = st.error {
                return Err(format!("initial room pull failed: {}", e));
            }
        }
        Ok(s)
    }

    /// creates the second room (same members and rights) on peer 0 and spreads it
    pub async fn add_second_room(&mut self) -> Result<(), String> {
        let keys: Vec<Vec<u8>> = self.peers.iter().map(|p| p.id.vkey.clone()).collect();
        let spec = open_room_spec(&keys, &["Person", "Pet", "ns.Thing"], true);
        let room2 = self.peers[0].create_room(&spec).await?;
        self.tick(1);
        for i in 1..self.peers.len() {
            let st = pull(&self.peers[i], &self.peers[0], room2.id, PullOpts::default()).await;
            if let Some(e) = st.error {
                return Err(format!("second room pull failed: {}", e));
            }
        }
        self.room2 = Some(room2);
        Ok(())
    }

    pub fn tick(&mut self, ms: i64) {
        self.t += ms;
        clock_set(self.t);
    }

    fn next_name(&mut self) -> String {
        self.counter += 1;
        format!("n{}", self.counter)
    }

    fn id_of(result: &str, entity: &str) -> Option<Uid> {
        let v: Value = serde_json::from_str(result).ok()?;
        let id = v.get(entity)?.get("id")?.as_str()?;
        let b = crate::util::unb64(id);
        b.try_into().ok()
    }

    pub async fn apply(&mut self, op: &Op) -> OpOutcome {
        let room64 = self.room.id64();
        let out = match op {
            Op::Tick(ms) => {
                self.tick(*ms);
                OpOutcome::Ticked
            }
            Op::Create { peer, entity } => {
                let ent = ["Person", "Pet", "ns.Thing"][*entity % 3];
                let field = if ent == "ns.Thing" { "label" } else { "name" };
                let name = self.next_name();
                let mut p = Parameters::new();
                p.add("room", room64).unwrap();
                p.add("name", name).unwrap();
                let m = format!("mutate {{ {}{{ room_id:$room {}:$name }} }}", ent, field);
                match self.peers[*peer].mutate(&m, Some(p)).await {
                    Ok(r) => {
                        if let Some(id) = Self::id_of(&r, ent) {
                            self.rows.push((id, ent.to_string()));
                        }
                        OpOutcome::Accepted
                    }
                    Err(e) => OpOutcome::Refused(e),
                }
            }
            Op::CreateNested { peer } => {
                let n1 = self.next_name();
                let n2 = self.next_name();
                let n3 = self.next_name();
                let mut p = Parameters::new();
                p.add("room", room64).unwrap();
                p.add("n1", n1).unwrap();
                p.add("n2", n2).unwrap();
                p.add("n3", n3).unwrap();
                let m = "mutate { Person{ room_id:$room name:$n1 pet:{name:$n2} parents:[{name:$n3}] } }";
                match self.peers[*peer].mutate_raw(m, Some(p)).await {
                    Ok(r) => {
                        let e = &r.mutate_entities[0];
                        self.rows.push((e.node_to_mutate.id, "Person".to_string()));
                        if let Some(v) = e.sub_nodes.get("pet") {
                            self.rows.push((v[0].node_to_mutate.id, "Pet".to_string()));
                        }
                        if let Some(v) = e.sub_nodes.get("parents") {
                            self.rows.push((v[0].node_to_mutate.id, "Person".to_string()));
                        }
                        OpOutcome::Accepted
                    }
                    Err(e) => OpOutcome::Refused(e.to_string()),
                }
            }
            Op::Update { peer, row } => {
                if self.rows.is_empty() {
                    return OpOutcome::Refused("no row".into());
                }
                let (id, ent) = self.rows[*row % self.rows.len()].clone();
                let field = if ent == "ns.Thing" { "label" } else { "name" };
                let name = self.next_name();
                let mut p = Parameters::new();
                p.add("id", b64(&id)).unwrap();
                p.add("name", name).unwrap();
                let m = format!("mutate {{ {}{{ id:$id {}:$name }} }}", ent, field);
                match self.peers[*peer].mutate(&m, Some(p)).await {
                    Ok(_) => OpOutcome::Accepted,
                    Err(e) => OpOutcome::Refused(e),
                }
            }
            Op::UpdateThroughParent { peer, row } => {
                let snap = self.peers[*peer].snapshot().await;
                let refs: Vec<(Uid, String, Uid)> = snap
                    .edges
                    .keys()
                    .filter(|(src, label, dest)| {
                        (label == "34" || label == "35")
                            && snap.nodes.keys().any(|k| &k.0 == src && k.1 == "0")
                            && snap.nodes.keys().any(|k| &k.0 == dest)
                    })
                    .cloned()
                    .collect();
                if refs.is_empty() {
                    return OpOutcome::Refused("no row".into());
                }
                let (src, label, dest) = refs[*row % refs.len()].clone();
                let name = self.next_name();
                let mut p = Parameters::new();
                p.add("id", b64(&src)).unwrap();
                p.add("sub", b64(&dest)).unwrap();
                p.add("name", name).unwrap();
                let m = if label == "35" {
                    "mutate { Person{ id:$id pet:{ id:$sub name:$name } } }"
                } else {
                    "mutate { Person{ id:$id parents:[{ id:$sub name:$name }] } }"
                };
                match self.peers[*peer].mutate(m, Some(p)).await {
                    Ok(_) => OpOutcome::Accepted,
                    Err(e) => OpOutcome::Refused(e),
                }
            }
            Op::SetPet { peer, row, pet } => {
                let (Some(person), Some(pet)) =
                    (self.nth_of("Person", *row), self.nth_of("Pet", *pet))
                else {
                    return OpOutcome::Refused("no row".into());
                };
                let mut p = Parameters::new();
                p.add("id", b64(&person)).unwrap();
                p.add("pet", b64(&pet)).unwrap();
                let m = "mutate { Person{ id:$id pet:{id:$pet} } }";
                match self.peers[*peer].mutate(m, Some(p)).await {
                    Ok(_) => OpOutcome::Accepted,
                    Err(e) => OpOutcome::Refused(e),
                }
            }
            Op::ClearPet { peer, row } => {
                let Some(person) = self.nth_of("Person", *row) else {
                    return OpOutcome::Refused("no row".into());
                };
                let mut p = Parameters::new();
                p.add("id", b64(&person)).unwrap();
                let m = "mutate { Person{ id:$id pet:null } }";
                match self.peers[*peer].mutate(m, Some(p)).await {
                    Ok(_) => OpOutcome::Accepted,
                    Err(e) => OpOutcome::Refused(e),
                }
            }
            Op::AddParent { peer, row, parent } => {
                let (Some(person), Some(parent)) =
                    (self.nth_of("Person", *row), self.nth_of("Person", *parent))
                else {
                    return OpOutcome::Refused("no row".into());
                };
                let mut p = Parameters::new();
                p.add("id", b64(&person)).unwrap();
                p.add("parent", b64(&parent)).unwrap();
                let m = "mutate { Person{ id:$id parents:[{id:$parent}] } }";
                match self.peers[*peer].mutate(m, Some(p)).await {
                    Ok(_) => OpOutcome::Accepted,
                    Err(e) => OpOutcome::Refused(e),
                }
            }
            Op::ClearParents { peer, row } => {
                let Some(person) = self.nth_of("Person", *row) else {
                    return OpOutcome::Refused("no row".into());
                };
                let mut p = Parameters::new();
                p.add("id", b64(&person)).unwrap();
                let m = "mutate { Person{ id:$id parents:null } }";
                match self.peers[*peer].mutate(m, Some(p)).await {
                    Ok(_) => OpOutcome::Accepted,
                    Err(e) => OpOutcome::Refused(e),
                }
            }
            Op::DeleteNode { peer, row } => {
                if self.rows.is_empty() {
                    return OpOutcome::Refused("no row".into());
                }
                let (id, ent) = self.rows[*row % self.rows.len()].clone();
                // only rows the peer actually holds: deleting an unknown id is a silent no-op
                let holds = self.peers[*peer]
                    .snapshot()
                    .await
                    .nodes
                    .keys()
                    .any(|k| k.0 == id);
                if !holds {
                    return OpOutcome::Refused("row not held by this peer".into());
                }
                let mut p = Parameters::new();
                p.add("id", b64(&id)).unwrap();
                let d = format!("delete {{ {}{{ $id }} }}", ent);
                match self.peers[*peer].delete(&d, Some(p)).await {
                    Ok(_) => OpOutcome::Accepted,
                    Err(e) => OpOutcome::Refused(e),
                }
            }
            Op::DeleteRef { peer, row, parent } => {
                let (Some(person), Some(parent)) =
                    (self.nth_of("Person", *row), self.nth_of("Person", *parent))
                else {
                    return OpOutcome::Refused("no row".into());
                };
                let mut p = Parameters::new();
                p.add("id", b64(&person)).unwrap();
                p.add("parent", b64(&parent)).unwrap();
                let d = "delete { Person{ $id parents[$parent] } }";
                match self.peers[*peer].delete(d, Some(p)).await {
                    Ok(_) => OpOutcome::Accepted,
                    Err(e) => OpOutcome::Refused(e),
                }
            }
            Op::Move { peer, row, to_second } => {
                if self.rows.is_empty() || self.room2.is_none() {
                    return OpOutcome::Refused("no row".into());
                }
                let (id, ent) = self.rows[*row % self.rows.len()].clone();
                let field = if ent == "ns.Thing" { "label" } else { "name" };
                let name = self.next_name();
                let target = if *to_second {
                    self.room2.as_ref().unwrap().id64()
                } else {
                    self.room.id64()
                };
                let mut p = Parameters::new();
                p.add("id", b64(&id)).unwrap();
                p.add("name", name).unwrap();
                p.add("room", target).unwrap();
                let m = format!("mutate {{ {}{{ id:$id room_id:$room {}:$name }} }}", ent, field);
                match self.peers[*peer].mutate(&m, Some(p)).await {
                    Ok(_) => OpOutcome::Accepted,
                    Err(e) => OpOutcome::Refused(e),
                }
            }
            Op::StreamCreate { peer, n } => {
                let (tx, mut rx) = self.peers[*peer].db.mutation_stream();
                let mut ok = 0;
                for _ in 0..*n {
                    let name = self.next_name();
                    let mut p = Parameters::new();
                    p.add("room", room64.clone()).unwrap();
                    p.add("name", name).unwrap();
                    let _ = tx
                        .send((
                            "mutate { Person{ room_id:$room name:$name } }".to_string(),
                            Some(p),
                        ))
                        .await;
                }
                for _ in 0..*n {
                    if let Some(Ok(q)) = rx.recv().await {
                        self.rows
                            .push((q.mutate_entities[0].node_to_mutate.id, "Person".to_string()));
                        ok += 1;
                    }
                }
                drop(tx);
                // the stream task requests the recompute after the sender is dropped
                tokio::task::yield_now().await;
                tokio::time::sleep(std::time::Duration::from_millis(5)).await;
                self.peers[*peer].barrier().await;
                if ok == *n {
                    OpOutcome::Accepted
                } else {
                    OpOutcome::Refused(format!("{} of {} stream mutations acknowledged", ok, n))
                }
            }
            Op::Pull2 { dst, src } => {
                if dst == src || self.room2.is_none() {
                    return OpOutcome::Refused("self pull".into());
                }
                let st = pull(
                    &self.peers[*dst],
                    &self.peers[*src],
                    self.room2.as_ref().unwrap().id,
                    PullOpts::default(),
                )
                .await;
                OpOutcome::Pulled(vec![st])
            }
            Op::Pull { dst, src, cut } => {
                if dst == src {
                    return OpOutcome::Refused("self pull".into());
                }
                let st = pull(
                    &self.peers[*dst],
                    &self.peers[*src],
                    self.room.id,
                    PullOpts {
                        cut_after_answers: *cut,
                    },
                )
                .await;
                OpOutcome::Pulled(vec![st])
            }
            Op::PullBoth { a, b } => {
                if a == b {
                    return OpOutcome::Refused("self pull".into());
                }
                let (s1, s2) = tokio::join!(
                    pull(&self.peers[*a], &self.peers[*b], self.room.id, PullOpts::default()),
                    pull(&self.peers[*b], &self.peers[*a], self.room.id, PullOpts::default())
                );
                OpOutcome::Pulled(vec![s1, s2])
            }
        };
        self.log.push(json!({
            "t": self.t - T0,
            "op": op.describe(),
            "outcome": match &out {
                OpOutcome::Accepted => "accepted".to_string(),
                OpOutcome::Refused(e) => format!("refused: {}", e.chars().take(80).collect::<String>()),
                OpOutcome::Pulled(s) => format!("pulled: {:?}", s.iter().map(|x| (x.transferred(), x.error.clone())).collect::<Vec<_>>()),
                OpOutcome::Ticked => "tick".to_string(),
            }
        }));
        out
    }

    pub fn nth_of(&self, entity: &str, n: usize) -> Option<Uid> {
        let v: Vec<Uid> = self
            .rows
            .iter()
            .filter(|r| r.1 == entity)
            .map(|r| r.0)
            .collect();
        if v.is_empty() {
            None
        } else {
            Some(v[n % v.len()])
        }
    }

    /// random API operation (no pulls, no ticks)
    pub fn random_write(&self, rng: &mut StdRng, deletions: bool) -> Op {
        let n = self.peers.len();
        let peer = rng.gen_range(0..n);
        let k = rng.gen_range(0..100);
        let r = rng.gen_range(0..1000);
        let r2 = rng.gen_range(0..1000);
        if self.rows.is_empty() || k < 18 {
            return Op::Create {
                peer,
                entity: rng.gen_range(0..3),
            };
        }
        match k {
            18..=23 => Op::CreateNested { peer },
            24..=43 => Op::Update { peer, row: r },
            44..=49 => Op::UpdateThroughParent { peer, row: r },
            50..=57 => Op::SetPet { peer, row: r, pet: r2 },
            58..=61 => Op::ClearPet { peer, row: r },
            62..=71 => Op::AddParent { peer, row: r, parent: r2 },
            72..=74 => Op::ClearParents { peer, row: r },
            75..=86 if deletions => Op::DeleteNode { peer, row: r },
            87..=93 if deletions => Op::DeleteRef { peer, row: r, parent: r2 },
            _ => Op::Update { peer, row: r },
        }
    }

    pub fn random_tick(&self, rng: &mut StdRng) -> Op {
        match rng.gen_range(0..10) {
            0..=2 => Op::Tick(0),                          // same millisecond
            3..=6 => Op::Tick(rng.gen_range(1..5_000)),    // same day
            7..=8 => Op::Tick(DAY + rng.gen_range(0..1000)),
            _ => Op::Tick(3 * DAY),
        }
    }

    pub fn random_pull(&self, rng: &mut StdRng) -> Op {
        let n = self.peers.len();
        let dst = rng.gen_range(0..n);
        let mut src = rng.gen_range(0..n);
        if src == dst {
            src = (dst + 1) % n;
        }
        match rng.gen_range(0..10) {
            0 => Op::PullBoth { a: dst, b: src },
            1 => Op::Pull {
                dst,
                src,
                cut: Some(rng.gen_range(1..3)),
            },
            _ => Op::Pull { dst, src, cut: None },
        }
    }

    /// all ordered pairs in a seeded random order, repeated until one full round transfers
    /// nothing; returns (rounds, quiescent, digests per round)
    pub async fn quiesce(&mut self, rng: &mut StdRng, max_rounds: usize) -> (usize, bool, Vec<String>) {
        let n = self.peers.len();
        let mut digests = Vec::new();
        for round in 1..=max_rounds {
            let mut pairs: Vec<(usize, usize)> = Vec::new();
            for a in 0..n {
                for b in 0..n {
                    if a != b {
                        pairs.push((a, b));
                    }
                }
            }
            // seeded shuffle
            for i in (1..pairs.len()).rev() {
                let j = rng.gen_range(0..=i);
                pairs.swap(i, j);
            }
            let mut transferred = 0;
            for (dst, src) in pairs {
                let out = self.apply(&Op::Pull { dst, src, cut: None }).await;
                if let OpOutcome::Pulled(st) = out {
                    transferred += st.iter().map(|s| s.transferred()).sum::<usize>();
                }
            }
            let mut d = String::new();
            for p in &self.peers {
                let snap = p.snapshot().await;
                d.push_str(&room_dump(&snap, &self.room.id).digest());
                d.push('|');
            }
            digests.push(d);
            if transferred == 0 {
                return (round, true, digests);
            }
        }
        (max_rounds, false, digests)
    }
}

/// everything a peer stores for one room, in canonical form
#[derive(Debug, Clone, PartialEq, Eq, Default)]
pub struct RoomDump {
    pub nodes: BTreeMap<String, String>,
    pub edges: BTreeMap<String, String>,
    pub node_del: BTreeSet<String>,
    pub edge_del: BTreeSet<String>,
    pub daily: BTreeMap<String, String>,
}

pub fn room_dump(s: &Snapshot, room: &Uid) -> RoomDump {
    let mut d = RoomDump::default();
    let mut in_room: BTreeSet<Uid> = BTreeSet::new();
    for (k, n) in &s.nodes {
        if n.room_id.as_ref() == Some(room) {
            in_room.insert(n.id);
            d.nodes.insert(
                format!("{}/{}", b64(&k.0), k.1),
                format!("{:?}", node_sig(n)),
            );
        }
    }
    let existing: BTreeSet<Uid> = s.nodes.keys().map(|k| k.0).collect();
    for (k, e) in &s.edges {
        // references to a row that does not exist (any more) cannot be observed by any query
        if in_room.contains(&e.src) && existing.contains(&e.dest) {
            d.edges.insert(
                format!("{}-{}->{}", b64(&k.0), k.1, b64(&k.2)),
                format!("{:?}", edge_sig(e)),
            );
        }
    }
    for (k, v) in &s.node_del {
        if &k.0 == room {
            d.node_del.insert(format!(
                "{} {} m{} d{} {}",
                b64(&v.id),
                v.entity,
                v.mdate,
                v.deletion_date,
                b64(&v.signature)
            ));
        }
    }
    for (k, v) in &s.edge_del {
        if &k.0 == room {
            d.edge_del.insert(format!(
                "{}-{}->{} c{} d{} {}",
                b64(&v.src),
                v.label,
                b64(&v.dest),
                v.cdate,
                v.deletion_date,
                b64(&v.signature)
            ));
        }
    }
    for (k, v) in &s.daily {
        if &k.0 == room {
            d.daily.insert(
                format!("{} {}", k.1, k.2),
                format!(
                    "n{} d{:?} h{:?} r{}",
                    v.entry_number,
                    v.daily_hash.as_ref().map(|h| b64(h)),
                    v.history_hash.as_ref().map(|h| b64(h)),
                    v.need_recompute
                ),
            );
        }
    }
    d
}

impl RoomDump {
    /// digest of the replicated content (rows, references, deletion records), not of the log
    pub fn digest(&self) -> String {
        let mut h = blake3::Hasher::new();
        for (k, v) in &self.nodes {
            h.update(k.as_bytes());
            h.update(v.as_bytes());
        }
        for (k, v) in &self.edges {
            h.update(k.as_bytes());
            h.update(v.as_bytes());
        }
        for k in &self.node_del {
            h.update(k.as_bytes());
        }
        for k in &self.edge_del {
            h.update(k.as_bytes());
        }
        hex::encode(&h.finalize().as_bytes()[0..8])
    }
    pub fn content_eq(&self, o: &RoomDump) -> bool {
        self.nodes == o.nodes
            && self.edges == o.edges
            && self.node_del == o.node_del
            && self.edge_del == o.edge_del
    }
    /// human readable difference of the content
    pub fn content_diff(&self, o: &RoomDump) -> Vec<String> {
        let mut v = Vec::new();
        let mut cmp = |name: &str, a: &BTreeMap<String, String>, b: &BTreeMap<String, String>| {
            for (k, x) in a {
                match b.get(k) {
                    None => v.push(format!("{} {} only on first", name, k)),
                    Some(y) if x != y => v.push(format!("{} {} differs", name, k)),
                    _ => {}
                }
            }
            for k in b.keys() {
                if !a.contains_key(k) {
                    v.push(format!("{} {} only on second", name, k));
                }
            }
        };
        cmp("node", &self.nodes, &o.nodes);
        cmp("edge", &self.edges, &o.edges);
        for k in self.node_del.symmetric_difference(&o.node_del) {
            v.push(format!("node deletion record {} on one side only", k));
        }
        for k in self.edge_del.symmetric_difference(&o.edge_del) {
            v.push(format!("edge deletion record {} on one side only", k));
        }
        v
    }
}
