//! small helpers: panic counter, clock control, encoding
use discret::verif::date_utils::verif_clock;
use std::sync::atomic::{AtomicU64, Ordering};
use std::sync::Mutex;

pub static PANICS: AtomicU64 = AtomicU64::new(0);
pub static PANIC_MESSAGES: Mutex<Vec<String>> = Mutex::new(Vec::new());

/// process-global panic hook: counts panics of every thread (reader, verifier, writer, tokio tasks)
pub fn install_panic_counter() {
    std::panic::set_hook(Box::new(|info| {
        PANICS.fetch_add(1, Ordering::SeqCst);
        let thread = std::thread::current();
        let msg = format!(
            "thread '{}' panicked: {}",
            thread.name().unwrap_or("?"),
            info
        );
        if let Ok(mut m) = PANIC_MESSAGES.lock() {
            if m.len() < 100 {
                m.push(msg.clone());
            }
        }
        eprintln!("{}", msg);
    }));
}

pub fn panics() -> u64 {
    PANICS.load(Ordering::SeqCst)
}

pub fn panic_messages() -> Vec<String> {
    PANIC_MESSAGES.lock().map(|m| m.clone()).unwrap_or_default()
}

pub const DAY: i64 = 86_400_000;
/// 2024-01-01T00:00:00Z in ms: base of the logical clock
pub const T0: i64 = 1_704_067_200_000;

pub fn clock_set(t: i64) {
    verif_clock::set(t);
}
pub fn clock_step(step: i64) {
    verif_clock::set_step(step);
}
pub fn clock_get() -> i64 {
    verif_clock::get()
}
/// back to the real clock
pub fn clock_real() {
    verif_clock::set(0);
    verif_clock::set_step(0);
}

pub fn b64(data: &[u8]) -> String {
    discret::base64_encode(data)
}
pub fn unb64(s: &str) -> Vec<u8> {
    discret::base64_decode(s.as_bytes()).unwrap()
}
pub fn short(data: &[u8]) -> String {
    let s = b64(data);
    s.chars().take(6).collect()
}
pub fn day_of(t: i64) -> i64 {
    t.div_euclid(DAY) * DAY
}
