//! Case runner, shard reports, evidence and verdict discipline shared by every property.
//!
//! parent process (`dv run CNN`) -> N shard child processes (`dv shard CNN ...`) -> merge ->
//! /verif/evidence/CNN.json + KNOWN-FINDING / VIOLATION lines + exit code.
use rand::{rngs::StdRng, SeedableRng};
use serde::{Deserialize, Serialize};
use serde_json::{json, Value};
use std::collections::{BTreeMap, BTreeSet};
use std::future::Future;
use std::path::{Path, PathBuf};
use std::pin::Pin;
use std::time::{Duration, Instant};

#[derive(Clone, Copy, Debug, PartialEq, Eq, Serialize, Deserialize)]
pub enum Tier {
    Quick,
    Thorough,
}
impl Tier {
    pub fn name(&self) -> &'static str {
        match self {
            Tier::Quick => "quick",
            Tier::Thorough => "thorough",
        }
    }
    pub fn pick<T>(&self, quick: T, thorough: T) -> T {
        match self {
            Tier::Quick => quick,
            Tier::Thorough => thorough,
        }
    }
}

#[derive(Clone, Debug)]
pub struct Ctx {
    pub prop: String,
    pub tier: Tier,
    pub seed: u64,
    pub shard: usize,
    pub shards: usize,
    pub workdir: PathBuf,
}
impl Ctx {
    /// deterministic per-case seed
    pub fn case_seed(&self, case: u64) -> u64 {
        let mut h = blake3::Hasher::new();
        h.update(self.prop.as_bytes());
        h.update(&self.seed.to_le_bytes());
        h.update(&case.to_le_bytes());
        let b = h.finalize();
        u64::from_le_bytes(b.as_bytes()[0..8].try_into().unwrap())
    }
    pub fn rng(&self, case: u64) -> StdRng {
        StdRng::seed_from_u64(self.case_seed(case))
    }
    pub fn case_dir(&self, case: u64) -> PathBuf {
        let p = self.workdir.join(format!("case-{}", case));
        let _ = std::fs::remove_dir_all(&p);
        std::fs::create_dir_all(&p).unwrap();
        p
    }
}

#[derive(Clone, Debug, Serialize, Deserialize)]
pub struct Violation {
    pub signature: String,
    pub case: u64,
    pub case_seed: u64,
    pub detail: Value,
}

/// accumulator filled by a property while it runs its share of the cases
#[derive(Default, Debug, Serialize, Deserialize)]
pub struct Acc {
    pub evaluations: u64,
    pub held: u64,
    pub inconclusive: u64,
    pub inconclusive_reasons: BTreeMap<String, u64>,
    pub nontrivial: BTreeSet<String>,
    pub counters: BTreeMap<String, u64>,
    pub distinct: BTreeMap<String, BTreeSet<String>>,
    pub samples: Vec<Value>,
    pub violations: Vec<Violation>,
    pub aux_reports: Vec<Value>,
    pub exhaustive: Option<bool>,
    #[serde(skip)]
    pub cur_case: u64,
    #[serde(skip)]
    pub cur_seed: u64,
}
impl Acc {
    pub fn begin(&mut self, case: u64, seed: u64) {
        self.cur_case = case;
        self.cur_seed = seed;
        self.evaluations += 1;
    }
    /// the case held; `nontrivial` is the canonical key of the case when it satisfies the
    /// property specific non-triviality rule (distinct keys are counted)
    pub fn held(&mut self, nontrivial: Option<String>) {
        self.held += 1;
        if let Some(k) = nontrivial {
            self.nontrivial.insert(k);
        }
    }
    pub fn nontrivial(&mut self, k: String) {
        self.nontrivial.insert(k);
    }
    pub fn violation(&mut self, signature: impl Into<String>, detail: Value) {
        let signature = signature.into();
        // keep every distinct signature, and at most 5 witnesses per signature
        let n = self
            .violations
            .iter()
            .filter(|v| v.signature == signature)
            .count();
        self.count(&format!("violations/{}", signature), 1);
        if n < 5 {
            self.violations.push(Violation {
                signature,
                case: self.cur_case,
                case_seed: self.cur_seed,
                detail,
            });
        }
    }
    pub fn inconclusive(&mut self, reason: impl Into<String>) {
        self.inconclusive += 1;
        *self.inconclusive_reasons.entry(reason.into()).or_insert(0) += 1;
    }
    pub fn count(&mut self, name: &str, n: u64) {
        *self.counters.entry(name.to_string()).or_insert(0) += n;
    }
    pub fn distinct(&mut self, category: &str, key: impl Into<String>) {
        let set = self.distinct.entry(category.to_string()).or_default();
        if set.len() < 200_000 {
            set.insert(key.into());
        }
    }
    pub fn sample(&mut self, v: Value) {
        if self.samples.len() < 4 {
            self.samples.push(v);
        }
    }
    pub fn aux(&mut self, v: Value) {
        if self.aux_reports.len() < 50 {
            self.aux_reports.push(v);
        }
    }
    pub fn merge(&mut self, o: Acc) {
        self.evaluations += o.evaluations;
        self.held += o.held;
        self.inconclusive += o.inconclusive;
        for (k, v) in o.inconclusive_reasons {
            *self.inconclusive_reasons.entry(k).or_insert(0) += v;
        }
        self.nontrivial.extend(o.nontrivial);
        for (k, v) in o.counters {
            *self.counters.entry(k).or_insert(0) += v;
        }
        for (k, v) in o.distinct {
            self.distinct.entry(k).or_default().extend(v);
        }
        for s in o.samples {
            if self.samples.len() < 5 {
                self.samples.push(s);
            }
        }
        for v in o.violations {
            let n = self
                .violations
                .iter()
                .filter(|x| x.signature == v.signature)
                .count();
            if n < 5 {
                self.violations.push(v);
            }
        }
        for a in o.aux_reports {
            if self.aux_reports.len() < 50 {
                self.aux_reports.push(a);
            }
        }
        self.exhaustive = match (self.exhaustive, o.exhaustive) {
            (Some(a), Some(b)) => Some(a && b),
            (None, x) => x,
            (x, None) => x,
        };
    }
}

pub type CaseFut<'a> = Pin<Box<dyn Future<Output = ()> + 'a>>;

/// static description of one property check
pub struct PropDef {
    pub id: &'static str,
    pub level: &'static str,
    pub rule: &'static str,
    pub assumptions: &'static [&'static str],
    /// number of cases for the tier
    pub cases: fn(Tier) -> u64,
    /// number of shard processes for the tier
    pub shards: fn(Tier) -> usize,
    /// wall clock watchdog per case, seconds (expiry = inconclusive)
    pub case_budget_s: fn(Tier) -> u64,
    /// minimum number of conclusive (held + violated) cases for the run to count
    pub min_conclusive: fn(Tier) -> u64,
    /// runs one case; must call acc.held / acc.violation / acc.inconclusive
    pub run_case: for<'a> fn(&'a Ctx, u64, &'a mut Acc) -> CaseFut<'a>,
    /// optional post-processing in the parent after the merge (e.g. sanitizer passes)
    pub finish: Option<fn(&Ctx, &mut Acc)>,
    /// worker threads of the per-case tokio runtime
    pub worker_threads: usize,
    /// true: the runner creates a tokio runtime per case; false: run_case manages its own
    /// runtimes and must not be awaited inside one (the future is driven by a tiny executor)
    pub tokio_per_case: bool,
}

/// runs the cases of one shard inside this process and returns the accumulator
pub fn run_shard(def: &PropDef, ctx: &Ctx, only_case: Option<u64>) -> Acc {
    let mut acc = Acc::default();
    let n = (def.cases)(ctx.tier);
    let budget = Duration::from_secs((def.case_budget_s)(ctx.tier));
    let cases: Vec<u64> = match only_case {
        Some(c) => vec![c],
        None => (0..n)
            .filter(|c| (*c as usize) % ctx.shards == ctx.shard)
            .collect(),
    };
    for case in cases {
        let seed = ctx.case_seed(case);
        acc.begin(case, seed);
        let before = (acc.held, acc.violations.len(), acc.inconclusive);
        let before_viol_count: u64 = acc
            .counters
            .iter()
            .filter(|(k, _)| k.starts_with("violations/"))
            .map(|(_, v)| *v)
            .sum();
        if def.tokio_per_case {
            let rt = tokio::runtime::Builder::new_multi_thread()
                .worker_threads(def.worker_threads.max(2))
                .enable_all()
                .build()
                .unwrap();
            let timed_out = rt.block_on(async {
                tokio::time::timeout(budget, (def.run_case)(ctx, case, &mut acc))
                    .await
                    .is_err()
            });
            rt.shutdown_timeout(Duration::from_millis(500));
            if timed_out {
                acc.inconclusive("case watchdog expired");
            }
        } else {
            futures::executor::block_on((def.run_case)(ctx, case, &mut acc));
        }
        let after_viol_count: u64 = acc
            .counters
            .iter()
            .filter(|(k, _)| k.starts_with("violations/"))
            .map(|(_, v)| *v)
            .sum();
        if after_viol_count > before_viol_count && acc.held == before.0 {
            // a case that ended with a violation (known or not) is conclusive
            acc.count("cases_violated", 1);
        }
        if (acc.held, acc.violations.len(), acc.inconclusive) == before
            && after_viol_count == before_viol_count
        {
            acc.inconclusive("case produced no verdict");
        }
        let _ = std::fs::remove_dir_all(ctx.workdir.join(format!("case-{}", case)));
    }
    acc
}

#[derive(Clone, Debug, Serialize, Deserialize)]
pub struct KnownFinding {
    pub property: String,
    pub signature: String,
    pub status: String,
    #[serde(default)]
    pub commit: Option<String>,
    pub what_fails: String,
}

pub fn load_known(path: &Path) -> Vec<KnownFinding> {
    match std::fs::read_to_string(path) {
        Ok(s) => serde_json::from_str(&s).expect("known_findings.json is not valid"),
        Err(_) => Vec::new(),
    }
}

pub struct Verdict {
    pub exit_code: i32,
}

/// merge result -> evidence file, verdict lines, exit code
pub fn conclude(
    def: &PropDef,
    ctx: &Ctx,
    mut acc: Acc,
    wall: Instant,
    verif_root: &Path,
    shard_failures: Vec<String>,
) -> Verdict {
    if let Some(f) = def.finish {
        f(ctx, &mut acc);
    }
    let known = load_known(&verif_root.join("known_findings.json"));
    let mut known_hit: BTreeMap<String, (String, u64)> = BTreeMap::new();
    let mut unknown: Vec<&Violation> = Vec::new();
    for v in &acc.violations {
        let k = known
            .iter()
            .find(|k| k.property == def.id && k.status == "known" && k.signature == v.signature);
        match k {
            Some(k) => {
                let e = known_hit
                    .entry(v.signature.clone())
                    .or_insert((k.what_fails.clone(), 0));
                e.1 += 1;
            }
            None => unknown.push(v),
        }
    }
    let replay_dir = verif_root.join("replay");
    let _ = std::fs::create_dir_all(&replay_dir);
    let mut lines = Vec::new();
    for (sig, (what, _n)) in &known_hit {
        lines.push(format!(
            "KNOWN-FINDING: property={} {} [{}]",
            def.id, what, sig
        ));
    }
    let mut seen_sig = BTreeSet::new();
    let mut n = 0;
    for v in &unknown {
        if !seen_sig.insert(v.signature.clone()) {
            continue;
        }
        let path = replay_dir.join(format!("{}-{}-{}.json", def.id, ctx.seed, n));
        n += 1;
        let doc = json!({
            "property": def.id,
            "signature": v.signature,
            "tier": ctx.tier.name(),
            "seed": ctx.seed,
            "case": v.case,
            "case_seed": v.case_seed,
            "detail": v.detail,
        });
        let _ = std::fs::write(&path, serde_json::to_string_pretty(&doc).unwrap());
        lines.push(format!(
            "VIOLATION property={} replay={} signature={}",
            def.id,
            path.display(),
            v.signature
        ));
    }
    let conclusive = acc.held
        + (acc.violations.len() as u64).max(acc.counters.get("cases_violated").copied().unwrap_or(0));
    let min = (def.min_conclusive)(ctx.tier);
    let violated = !unknown.is_empty();

    // evidence
    let mut distinct_counts = BTreeMap::new();
    for (k, v) in &acc.distinct {
        distinct_counts.insert(k.clone(), v.len());
    }
    let mut coverage = json!({
        "evaluations": acc.evaluations,
        "distinct_nontrivial": acc.nontrivial.len(),
        "rule": def.rule,
        "samples": acc.samples,
        "held": acc.held,
        "inconclusive": acc.inconclusive,
        "inconclusive_reasons": acc.inconclusive_reasons,
        "counters": acc.counters,
        "distinct_observed": distinct_counts,
        "known_findings_hit": known_hit.iter().map(|(k, v)| json!({"signature": k, "witnesses": v.1})).collect::<Vec<_>>(),
        "violation_signatures": unknown.iter().map(|v| v.signature.clone()).collect::<BTreeSet<_>>(),
        "aux_reports": acc.aux_reports,
        "shard_failures": shard_failures,
        "shards": ctx.shards,
    });
    if let Some(e) = acc.exhaustive {
        coverage["exhaustive"] = json!(e);
    }
    let evidence = json!({
        "property_id": def.id,
        "tier": ctx.tier.name(),
        "seed": ctx.seed,
        "level": def.level,
        "coverage": coverage,
        "assumptions": def.assumptions,
        "wall_s": wall.elapsed().as_secs_f64(),
        "violations": unknown.len(),
    });
    let ev_dir = verif_root.join("evidence");
    let _ = std::fs::create_dir_all(&ev_dir);
    let ev_path = ev_dir.join(format!("{}.json", def.id));
    std::fs::write(&ev_path, serde_json::to_string_pretty(&evidence).unwrap()).unwrap();

    for l in &lines {
        println!("{}", l);
    }
    println!(
        "{}: tier={} seed={} evaluations={} held={} violated_signatures={} known={} inconclusive={} distinct_nontrivial={} wall={:.1}s",
        def.id,
        ctx.tier.name(),
        ctx.seed,
        acc.evaluations,
        acc.held,
        unknown.iter().map(|v| &v.signature).collect::<BTreeSet<_>>().len(),
        known_hit.len(),
        acc.inconclusive,
        acc.nontrivial.len(),
        wall.elapsed().as_secs_f64()
    );
    let exit_code = if violated {
        1
    } else if conclusive < min || acc.nontrivial.len() < 2 {
        println!(
            "{}: INCONCLUSIVE: only {} conclusive cases (minimum {}), {} distinct non trivial; shard failures: {:?}; reasons: {:?}",
            def.id, conclusive, min, acc.nontrivial.len(), shard_failures, acc.inconclusive_reasons
        );
        3
    } else {
        0
    };
    Verdict { exit_code }
}
