//! C05 — Query results equal a direct evaluation of the query over the data.
//!
//! Real code path without the actors (for throughput): in-memory connection prepared by the library,
//! rows written through MutationParser + MutationQuery, queries through QueryParser ->
//! PreparedQueries -> Query::read. The oracle is an independent evaluator over the rows read back from
//! the storage tables, restricted to clearly defined semantics.
use crate::runner::{Acc, CaseFut, Ctx, PropDef};
use crate::snapshot::{read_snapshot, Snapshot};
use crate::util::{b64, clock_set, clock_step, T0};
use discret::verif::database::mutation_query::MutationQuery;
use discret::verif::database::query::{PreparedQueries, Query};
use discret::verif::database::query_language::data_model_parser::DataModel;
use discret::verif::database::query_language::mutation_parser::MutationParser;
use discret::verif::database::query_language::query_parser::QueryParser;
use discret::verif::database::sqlite_database::{prepare_connection, Writeable};
use discret::verif::security::Uid;
use discret::{Parameters, ParametersAdd};
use rand::rngs::StdRng;
use rand::seq::SliceRandom;
use rand::Rng;
use serde_json::{json, Map, Value};
use std::cmp::Ordering;
use std::collections::BTreeMap;
use std::sync::Arc;

pub static DEF: PropDef = PropDef {
    id: "C05",
    level: "exploration",
    rule: "generated (model, data set, query) triples: two model versions (the second adds default-filled and nullable fields, so rows written before it lack them), 4 entities in 2 namespaces with every scalar type, entity and array references including self references; data sets of 0-25 rows per entity with ties and nulls; queries with aliases, nested entities (depth <= 2) with their own filters and ordering, filters on selected and unselected fields with the six operators and null tests, order_by on 1-3 keys ending with id, first/skip, before/after with cursors taken from real rows, nullable(), aggregates (count, sum, avg, min, max) with grouping and having-filters, json selectors. Oracle: independent evaluator over the stored rows; results compared as parsed JSON (floats within 1e-9, aggregates without order as multisets); paging monitors: forward walk with first n + after(last row) equals the unpaged result, and before(c) ++ [c] ++ after(c) equals the unpaged result for every row c. non-trivial = query with at least two clause kinds whose reference result is neither empty nor the whole table; distinct = set of clause kinds x entity",
    assumptions: &[
        "restricted semantics: order keys are non-null and of one type and every ordering ends with id; null ordering position, cross-type comparison and != on nullable fields are not generated",
        "rows are written and read on one in-memory connection, without signatures and rooms",
    ],
    cases: |t| t.pick(6000, 30000),
    shards: |t| t.pick(12, 16),
    case_budget_s: |_| 300,
    min_conclusive: |t| t.pick(300, 1500),
    run_case,
    finish: None,
    worker_threads: 1,
    tokio_per_case: false,
};

const MODEL_V1: &str = "{
    Item{ i:Integer, f:Float nullable, s:String, b:Boolean, owner: Owner nullable, tags:[Tag] }
    Owner{ name:String, n:Integer }
    Tag{ label:String, w:Integer }
}
ns {
    Thing{ t:String, v:Integer nullable, j:Json nullable, others:[ns.Thing] }
}";

const MODEL_V2: &str = "{
    Item{ i:Integer, f:Float nullable, s:String, b:Boolean, owner: Owner nullable, tags:[Tag], d:Integer default 5, e:String nullable, g:String default \"dflt\" }
    Owner{ name:String, n:Integer }
    Tag{ label:String, w:Integer }
}
ns {
    Thing{ t:String, v:Integer nullable, j:Json nullable, others:[ns.Thing], k:Float default 1.5 }
}";

#[derive(Clone, Debug, PartialEq)]
enum T {
    Int,
    Float,
    Str,
    Bool,
    Json,
}

#[derive(Clone, Debug)]
struct F {
    name: &'static str,
    ty: T,
    nullable: bool,
    default: Option<Value>,
}

#[derive(Clone, Debug)]
struct E {
    name: &'static str,
    scalars: Vec<F>,
    /// (field, target entity, is array, nullable in the model)
    refs: Vec<(&'static str, &'static str, bool, bool)>,
}

fn f(name: &'static str, ty: T, nullable: bool, default: Option<Value>) -> F {
    F { name, ty, nullable, default }
}

fn entities() -> Vec<E> {
    vec![
        E {
            name: "Item",
            scalars: vec![f("i", T::Int, false, None), f("f", T::Float, true, None), f("s", T::Str, false, None), f("b", T::Bool, false, None), f("d", T::Int, false, Some(json!(5))), f("e", T::Str, true, None), f("g", T::Str, false, Some(json!("dflt")))],
            refs: vec![("owner", "Owner", false, true), ("tags", "Tag", true, false)],
        },
        E { name: "Owner", scalars: vec![f("name", T::Str, false, None), f("n", T::Int, false, None)], refs: vec![] },
        E { name: "Tag", scalars: vec![f("label", T::Str, false, None), f("w", T::Int, false, None)], refs: vec![] },
        E {
            name: "ns.Thing",
            scalars: vec![f("t", T::Str, false, None), f("v", T::Int, true, None), f("j", T::Json, true, None), f("k", T::Float, false, Some(json!(1.5)))],
            refs: vec![("others", "ns.Thing", true, false)],
        },
    ]
}

fn ent(name: &str) -> E {
    entities().into_iter().find(|e| e.name == name).unwrap()
}

/// stored row of the evaluator
#[derive(Clone, Debug)]
struct Row {
    id: Uid,
    mdate: i64,
    cdate: i64,
    json: Map<String, Value>,
}

struct World {
    /// entity name -> short name, field name -> short name
    shorts: BTreeMap<String, (String, BTreeMap<String, String>)>,
    rows: BTreeMap<String, Vec<Row>>,
    /// (src, label short) -> dests
    edges: BTreeMap<(Uid, String), Vec<Uid>>,
}

impl World {
    fn eff(&self, e: &E, row: &Row, field: &str) -> Value {
        match field {
            "id" => return json!(b64(&row.id)),
            "mdate" => return json!(row.mdate),
            "cdate" => return json!(row.cdate),
            _ => {}
        }
        let fd = e.scalars.iter().find(|x| x.name == field).unwrap();
        let short = &self.shorts[e.name].1[field];
        match row.json.get(short) {
            Some(v) if !v.is_null() => v.clone(),
            _ => fd.default.clone().unwrap_or(Value::Null),
        }
    }
}

fn cmp_val(a: &Value, b: &Value) -> Option<Ordering> {
    match (a, b) {
        (Value::Number(x), Value::Number(y)) => x.as_f64()?.partial_cmp(&y.as_f64()?),
        (Value::String(x), Value::String(y)) => Some(x.as_bytes().cmp(y.as_bytes())),
        (Value::Bool(x), Value::Bool(y)) => Some(x.cmp(y)),
        _ => None,
    }
}

#[derive(Clone, Debug)]
struct Filter {
    field: String,
    /// name used in the query text (alias or field name)
    text_name: String,
    op: &'static str,
    value: Value,
    as_param: bool,
}

#[derive(Clone, Debug)]
enum Sel {
    Scalar { field: String, alias: Option<String> },
    Sys { field: &'static str },
    JsonSel { alias: String, field: String, key: String },
    Nested { field: String, alias: Option<String>, sub: Box<Qry>, nullable: bool },
}

#[derive(Clone, Debug)]
enum AggFn {
    Count,
    Sum(String),
    Avg(String),
    Min(String),
    Max(String),
}

#[derive(Clone, Debug, Default)]
struct Qry {
    entity: String,
    alias: Option<String>,
    sels: Vec<Sel>,
    aggs: Vec<(String, AggFn)>,
    filters: Vec<Filter>,
    having: Vec<(String, &'static str, i64)>,
    order: Vec<(String, bool)>,
    first: Option<usize>,
    skip: Option<usize>,
    /// (is_after, cursor values as literals or params)
    paging: Option<(bool, Vec<Value>, bool)>,
}

impl Default for Sel {
    fn default() -> Self {
        Sel::Sys { field: "id" }
    }
}

fn lit(v: &Value) -> String {
    match v {
        Value::String(s) => format!("\"{}\"", s),
        Value::Null => "null".into(),
        other => {
            // floats need a decimal point to be parsed as floats
            if let Some(f) = other.as_f64() {
                if other.is_f64() {
                    let s = format!("{}", f);
                    if s.contains('.') || s.contains('e') {
                        return s;
                    }
                    return format!("{}.0", s);
                }
            }
            other.to_string()
        }
    }
}

struct TextCtx {
    params: Vec<(String, Value)>,
}

impl Qry {
    fn text(&self, top: bool, field_name: &str, cx: &mut TextCtx) -> String {
        let mut params: Vec<String> = Vec::new();
        for fl in &self.filters {
            let v = if fl.as_param && !fl.value.is_null() {
                let n = format!("p{}", cx.params.len());
                cx.params.push((n.clone(), fl.value.clone()));
                format!("${}", n)
            } else {
                lit(&fl.value)
            };
            params.push(format!("{} {} {}", fl.text_name, fl.op, v));
        }
        for (name, op, v) in &self.having {
            params.push(format!("{} {} {}", name, op, v));
        }
        if !self.order.is_empty() {
            params.push(format!(
                "order_by({})",
                self.order.iter().map(|(n, asc)| format!("{} {}", n, if *asc { "asc" } else { "desc" })).collect::<Vec<_>>().join(", ")
            ));
        }
        if let Some(n) = self.first {
            params.push(format!("first {}", n));
        }
        if let Some(n) = self.skip {
            params.push(format!("skip {}", n));
        }
        if let Some((after, vals, as_param)) = &self.paging {
            let vs: Vec<String> = vals
                .iter()
                .map(|v| {
                    if *as_param {
                        let n = format!("p{}", cx.params.len());
                        cx.params.push((n.clone(), v.clone()));
                        format!("${}", n)
                    } else {
                        lit(v)
                    }
                })
                .collect();
            params.push(format!("{}({})", if *after { "after" } else { "before" }, vs.join(", ")));
        }
        let nullables: Vec<String> = self
            .sels
            .iter()
            .filter_map(|s| match s {
                Sel::Nested { field, alias, nullable: true, .. } => Some(alias.clone().unwrap_or(field.clone())),
                _ => None,
            })
            .collect();
        if !nullables.is_empty() {
            params.push(format!("nullable({})", nullables.join(", ")));
        }
        let mut body = String::new();
        for s in &self.sels {
            match s {
                Sel::Scalar { field, alias } => match alias {
                    Some(a) => body.push_str(&format!("{}: {} ", a, field)),
                    None => body.push_str(&format!("{} ", field)),
                },
                Sel::Sys { field } => body.push_str(&format!("{} ", field)),
                Sel::JsonSel { alias, field, key } => body.push_str(&format!("{}: {}->$.{} ", alias, field, key)),
                Sel::Nested { field, alias, sub, .. } => {
                    let name = match alias {
                        Some(a) => format!("{}: {}", a, field),
                        None => field.clone(),
                    };
                    body.push_str(&sub.text(false, &name, cx));
                    body.push(' ');
                }
            }
        }
        for (alias, a) in &self.aggs {
            let t = match a {
                AggFn::Count => "count()".to_string(),
                AggFn::Sum(x) => format!("sum({})", x),
                AggFn::Avg(x) => format!("avg({})", x),
                AggFn::Min(x) => format!("min({})", x),
                AggFn::Max(x) => format!("max({})", x),
            };
            body.push_str(&format!("{}: {} ", alias, t));
        }
        let head = if top {
            match &self.alias {
                Some(a) => format!("{}: {}", a, self.entity),
                None => self.entity.clone(),
            }
        } else {
            field_name.to_string()
        };
        let p = if params.is_empty() { String::new() } else { format!("({})", params.join(", ")) };
        format!("{}{}{{ {}}}", head, p, body)
    }
}

fn passes(w: &World, e: &E, row: &Row, fl: &Filter) -> bool {
    let v = w.eff(e, row, &fl.field);
    if fl.value.is_null() {
        return match fl.op {
            "=" => v.is_null(),
            "!=" => !v.is_null(),
            _ => false,
        };
    }
    match cmp_val(&v, &fl.value) {
        None => false,
        Some(o) => match fl.op {
            "=" => o == Ordering::Equal,
            "!=" => o != Ordering::Equal,
            ">" => o == Ordering::Greater,
            ">=" => o != Ordering::Less,
            "<" => o == Ordering::Less,
            "<=" => o != Ordering::Greater,
            _ => false,
        },
    }
}

fn order_cmp(w: &World, e: &E, order: &[(String, bool)], a: &Row, b: &Row) -> Ordering {
    for (name, asc) in order {
        let (x, y) = if name == "id" {
            (Value::Null, Value::Null)
        } else {
            (w.eff(e, a, name), w.eff(e, b, name))
        };
        let o = if name == "id" { a.id.cmp(&b.id) } else { cmp_val(&x, &y).unwrap_or(Ordering::Equal) };
        let o = if *asc { o } else { o.reverse() };
        if o != Ordering::Equal {
            return o;
        }
    }
    Ordering::Equal
}

/// strict position of `row` relative to the cursor in query order, on the cursor's key prefix
fn cursor_cmp(w: &World, e: &E, order: &[(String, bool)], row: &Row, cursor: &[Value]) -> Ordering {
    for (i, c) in cursor.iter().enumerate() {
        let (name, asc) = &order[i];
        let o = if name == "id" {
            let cid = crate::util::unb64(c.as_str().unwrap_or(""));
            row.id.to_vec().cmp(&cid)
        } else {
            cmp_val(&w.eff(e, row, name), c).unwrap_or(Ordering::Equal)
        };
        let o = if *asc { o } else { o.reverse() };
        if o != Ordering::Equal {
            return o;
        }
    }
    Ordering::Equal
}

/// evaluates a (sub) query over candidate rows; returns the projected objects together with the rows
fn eval(w: &World, q: &Qry, candidates: Vec<Row>) -> Vec<(Row, Value)> {
    let e = ent(&q.entity);
    let mut out: Vec<(Row, Map<String, Value>)> = Vec::new();
    'rows: for row in candidates {
        for fl in &q.filters {
            if !passes(w, &e, &row, fl) {
                continue 'rows;
            }
        }
        if let Some((after, cursor, _)) = &q.paging {
            let o = cursor_cmp(w, &e, &q.order, &row, cursor);
            let keep = if *after { o == Ordering::Greater } else { o == Ordering::Less };
            if !keep {
                continue 'rows;
            }
        }
        let mut obj = Map::new();
        for s in &q.sels {
            match s {
                Sel::Scalar { field, alias } => {
                    obj.insert(alias.clone().unwrap_or(field.clone()), w.eff(&e, &row, field));
                }
                Sel::Sys { field } => {
                    obj.insert(field.to_string(), w.eff(&e, &row, field));
                }
                Sel::JsonSel { alias, field, key } => {
                    let v = w.eff(&e, &row, field);
                    obj.insert(alias.clone(), v.get(key).cloned().unwrap_or(Value::Null));
                }
                Sel::Nested { field, alias, sub, nullable } => {
                    let (_, target, is_array, model_nullable) = *e.refs.iter().find(|r| r.0 == field).unwrap();
                    let label = &w.shorts[e.name].1[field.as_str()];
                    let dests = w.edges.get(&(row.id, label.clone())).cloned().unwrap_or_default();
                    let cands: Vec<Row> = w.rows[target].iter().filter(|r| dests.contains(&r.id)).cloned().collect();
                    let mut res = eval(w, sub, cands);
                    let name = alias.clone().unwrap_or(field.clone());
                    let optional = *nullable || model_nullable;
                    if is_array {
                        if res.is_empty() && !optional {
                            continue 'rows;
                        }
                        obj.insert(name, Value::Array(res.drain(..).map(|x| x.1).collect()));
                    } else {
                        match res.into_iter().next() {
                            Some((_, v)) => {
                                obj.insert(name, v);
                            }
                            None => {
                                if !optional {
                                    continue 'rows;
                                }
                                obj.insert(name, Value::Null);
                            }
                        }
                    }
                }
            }
        }
        out.push((row, obj));
    }
    if !q.order.is_empty() {
        out.sort_by(|a, b| order_cmp(w, &e, &q.order, &a.0, &b.0));
    }
    if !q.aggs.is_empty() {
        // group by the selected scalars
        let mut groups: Vec<(Vec<Value>, Vec<Row>)> = Vec::new();
        let keys: Vec<String> = q.sels.iter().filter_map(|s| if let Sel::Scalar { field, .. } = s { Some(field.clone()) } else { None }).collect();
        for (row, _) in &out {
            let k: Vec<Value> = keys.iter().map(|f| w.eff(&e, row, f)).collect();
            match groups.iter_mut().find(|g| g.0 == k) {
                Some(g) => g.1.push(row.clone()),
                None => groups.push((k, vec![row.clone()])),
            }
        }
        if keys.is_empty() && groups.is_empty() {
            groups.push((vec![], vec![]));
        }
        let mut res = Vec::new();
        'groups: for (k, rows) in groups {
            let mut obj = Map::new();
            for (s, v) in q.sels.iter().zip(k.iter()) {
                if let Sel::Scalar { field, alias } = s {
                    obj.insert(alias.clone().unwrap_or(field.clone()), v.clone());
                }
            }
            for (alias, a) in &q.aggs {
                let nums = |f: &String| -> Vec<f64> { rows.iter().filter_map(|r| w.eff(&e, r, f).as_f64()).collect() };
                let v = match a {
                    AggFn::Count => json!(rows.len()),
                    AggFn::Sum(f) => json!(nums(f).iter().sum::<f64>()),
                    AggFn::Avg(f) => {
                        let n = nums(f);
                        if n.is_empty() {
                            Value::Null
                        } else {
                            json!(n.iter().sum::<f64>() / n.len() as f64)
                        }
                    }
                    AggFn::Min(f) => nums(f).into_iter().fold(None, |m: Option<f64>, x| Some(m.map_or(x, |m| m.min(x)))).map(|x| json!(x)).unwrap_or(Value::Null),
                    AggFn::Max(f) => nums(f).into_iter().fold(None, |m: Option<f64>, x| Some(m.map_or(x, |m| m.max(x)))).map(|x| json!(x)).unwrap_or(Value::Null),
                };
                obj.insert(alias.clone(), v);
            }
            for (name, op, val) in &q.having {
                let v = obj.get(name).and_then(|v| v.as_f64()).unwrap_or(f64::NAN);
                let ok = match *op {
                    ">" => v > *val as f64,
                    ">=" => v >= *val as f64,
                    "<" => v < *val as f64,
                    "<=" => v <= *val as f64,
                    "=" => v == *val as f64,
                    _ => v != *val as f64,
                };
                if !ok {
                    continue 'groups;
                }
            }
            res.push((rows.first().cloned().unwrap_or(Row { id: [0; 16], mdate: 0, cdate: 0, json: Map::new() }), Value::Object(obj)));
        }
        return res;
    }
    let skip = q.skip.unwrap_or(0);
    let mut v: Vec<(Row, Value)> = out.into_iter().skip(skip).map(|(r, o)| (r, Value::Object(o))).collect();
    if let Some(n) = q.first {
        if n > 0 {
            v.truncate(n);
        }
    }
    v
}

fn json_eq(a: &Value, b: &Value) -> bool {
    match (a, b) {
        (Value::Number(x), Value::Number(y)) => {
            let (x, y) = (x.as_f64().unwrap_or(f64::NAN), y.as_f64().unwrap_or(f64::NAN));
            (x - y).abs() <= 1e-9 * (1.0 + x.abs().max(y.abs()))
        }
        (Value::Array(x), Value::Array(y)) => x.len() == y.len() && x.iter().zip(y.iter()).all(|(p, q)| json_eq(p, q)),
        (Value::Object(x), Value::Object(y)) => x.len() == y.len() && x.iter().all(|(k, v)| y.get(k).map(|w| json_eq(v, w)).unwrap_or(false)),
        _ => a == b,
    }
}

fn multiset_eq(a: &[Value], b: &[Value]) -> bool {
    if a.len() != b.len() {
        return false;
    }
    let mut used = vec![false; b.len()];
    'outer: for x in a {
        for (i, y) in b.iter().enumerate() {
            if !used[i] && json_eq(x, y) {
                used[i] = true;
                continue 'outer;
            }
        }
        return false;
    }
    true
}

struct Db {
    conn: rusqlite::Connection,
    dm: DataModel,
}

impl Db {
    fn mutate(&self, text: &str, mut params: Parameters) -> Result<MutationQuery, String> {
        let p = Arc::new(MutationParser::parse(text, &self.dm).map_err(|e| e.to_string())?);
        let mut q = MutationQuery::execute(&mut params, p, &self.conn).map_err(|e| e.to_string())?;
        q.write(&self.conn).map_err(|e| e.to_string())?;
        Ok(q)
    }
    fn query(&self, text: &str, params: Parameters) -> Result<Value, String> {
        let parser = QueryParser::parse(text, &self.dm).map_err(|e| format!("parse: {}", e))?;
        let prepared = PreparedQueries::build(&parser).map_err(|e| format!("build: {}", e))?;
        let mut q = Query { parameters: params, parser: Arc::new(parser), sql_queries: Arc::new(prepared) };
        let s = q.read(&self.conn).map_err(|e| format!("read: {}", e))?;
        serde_json::from_str(&s).map_err(|e| format!("invalid json: {} in {}", e, s.chars().take(200).collect::<String>()))
    }
}

fn params_of(cx: &TextCtx) -> Parameters {
    let mut p = Parameters::new();
    for (n, v) in &cx.params {
        match v {
            Value::String(s) => p.add(n, s.clone()).unwrap(),
            Value::Bool(b) => p.add(n, *b).unwrap(),
            Value::Number(x) if x.is_i64() => p.add(n, x.as_i64().unwrap()).unwrap(),
            Value::Number(x) => p.add(n, x.as_f64().unwrap()).unwrap(),
            _ => p.add_null(n).unwrap(),
        }
    }
    p
}

fn rand_value(rng: &mut StdRng, ty: &T) -> Value {
    match ty {
        T::Int => json!([0, 1, 2, 3, 10, 11][rng.gen_range(0..6)]),
        T::Float => json!([0.5, 1.5, 2.25, 10.75][rng.gen_range(0..4)]),
        T::Str => json!(["a", "b", "c", "ab", "B"][rng.gen_range(0..5)]),
        T::Bool => json!(rng.gen_bool(0.5)),
        T::Json => json!({"a": rng.gen_range(0..3), "b": [1, 2]}),
    }
}

fn build_world(db: &Db) -> World {
    let snap: Snapshot = read_snapshot(&db.conn).unwrap();
    let model: Value = serde_json::to_value(&db.dm).unwrap();
    let mut shorts = BTreeMap::new();
    for e in entities() {
        let (ns, _) = if e.name.contains('.') { ("ns", e.name) } else { ("", e.name) };
        let em = &model["namespaces"][ns][e.name];
        let mut fields = BTreeMap::new();
        if let Some(fs) = em["fields"].as_object() {
            for (n, fv) in fs {
                fields.insert(n.clone(), fv["short_name"].as_str().unwrap().to_string());
            }
        }
        shorts.insert(e.name.to_string(), (em["short_name"].as_str().unwrap().to_string(), fields));
    }
    let mut rows: BTreeMap<String, Vec<Row>> = BTreeMap::new();
    for e in entities() {
        let short = &shorts[e.name].0;
        let v: Vec<Row> = snap
            .nodes
            .values()
            .filter(|n| &n._entity == short)
            .map(|n| Row { id: n.id, mdate: n.mdate, cdate: n.cdate, json: serde_json::from_str::<Value>(n._json.as_deref().unwrap_or("{}")).unwrap().as_object().cloned().unwrap_or_default() })
            .collect();
        rows.insert(e.name.to_string(), v);
    }
    let mut edges: BTreeMap<(Uid, String), Vec<Uid>> = BTreeMap::new();
    for e in snap.edges.values() {
        edges.entry((e.src, e.label.clone())).or_default().push(e.dest);
    }
    World { shorts, rows, edges }
}

fn rand_filter(rng: &mut StdRng, e: &E, sels: &[Sel]) -> Option<Filter> {
    let fd = e.scalars.iter().filter(|x| x.ty != T::Json).collect::<Vec<_>>();
    let fd = fd[rng.gen_range(0..fd.len())].clone();
    // through its alias when the field is selected with one
    let alias = sels.iter().find_map(|s| match s {
        Sel::Scalar { field, alias: Some(a) } if field == fd.name => Some(a.clone()),
        _ => None,
    });
    let text_name = match alias {
        Some(a) if rng.gen_bool(0.5) => a,
        _ => fd.name.to_string(),
    };
    let null_test = fd.nullable && rng.gen_bool(0.3);
    if null_test {
        return Some(Filter { field: fd.name.to_string(), text_name, op: if rng.gen_bool(0.5) { "=" } else { "!=" }, value: Value::Null, as_param: false });
    }
    let ops: &[&'static str] = if fd.ty == T::Bool {
        &["="]
    } else if fd.nullable {
        &["=", ">", ">=", "<", "<="]
    } else {
        &["=", "!=", ">", ">=", "<", "<="]
    };
    Some(Filter { field: fd.name.to_string(), text_name, op: ops[rng.gen_range(0..ops.len())], value: rand_value(rng, &fd.ty), as_param: rng.gen_bool(0.5) })
}

fn rand_query(rng: &mut StdRng, ename: &str, depth: usize) -> Qry {
    let e = ent(ename);
    let mut q = Qry { entity: ename.to_string(), ..Default::default() };
    let mut scal: Vec<&F> = e.scalars.iter().filter(|x| x.ty != T::Json).collect();
    scal.shuffle(rng);
    let n = rng.gen_range(1..=scal.len().min(4));
    for fd in scal.iter().take(n) {
        let alias = if rng.gen_bool(0.25) { Some(format!("a{}", fd.name)) } else { None };
        q.sels.push(Sel::Scalar { field: fd.name.to_string(), alias });
    }
    if rng.gen_bool(0.6) || depth == 0 {
        q.sels.push(Sel::Sys { field: "id" });
    }
    if rng.gen_bool(0.2) {
        q.sels.push(Sel::Sys { field: "mdate" });
    }
    if ename == "ns.Thing" && rng.gen_bool(0.4) {
        q.sels.push(Sel::JsonSel { alias: "ja".into(), field: "j".into(), key: "a".into() });
    }
    if depth < 2 {
        for (field, target, _is_array, _) in &e.refs {
            if rng.gen_bool(0.5) {
                let mut sub = rand_query(rng, target, depth + 1);
                sub.paging = None;
                if !*_is_array {
                    // a single entity reference: ordering and limits of the one target are not defined
                    sub.order.clear();
                    sub.first = None;
                    sub.skip = None;
                }
                let alias = if rng.gen_bool(0.2) { Some(format!("n{}", field)) } else { None };
                q.sels.push(Sel::Nested { field: field.to_string(), alias, sub: Box::new(sub), nullable: rng.gen_bool(0.5) });
            }
        }
    }
    for _ in 0..rng.gen_range(0..=2) {
        if let Some(fl) = rand_filter(rng, &e, &q.sels) {
            q.filters.push(fl);
        }
    }
    if rng.gen_bool(0.6) {
        let cands: Vec<&F> = e.scalars.iter().filter(|x| !x.nullable && matches!(x.ty, T::Int | T::Str | T::Float)).collect();
        let mut keys: Vec<&F> = cands.clone();
        keys.shuffle(rng);
        for k in keys.iter().take(rng.gen_range(0..=2)) {
            q.order.push((k.name.to_string(), rng.gen_bool(0.5)));
        }
        q.order.push(("id".to_string(), rng.gen_bool(0.7)));
        if rng.gen_bool(0.5) {
            q.first = Some(rng.gen_range(1..6));
        }
        if rng.gen_bool(0.3) {
            q.skip = Some(rng.gen_range(1..4));
        }
    }
    q
}

fn clause_kinds(q: &Qry, out: &mut Vec<String>) {
    if q.sels.iter().any(|s| matches!(s, Sel::Scalar { alias: Some(_), .. })) {
        out.push("alias".into());
    }
    if q.sels.iter().any(|s| matches!(s, Sel::JsonSel { .. })) {
        out.push("json-selector".into());
    }
    for fl in &q.filters {
        out.push(if fl.value.is_null() { "null-filter".into() } else { format!("filter{}", if fl.as_param { "-param" } else { "-literal" }) });
    }
    if q.order.len() > 1 {
        out.push(format!("order-{}-keys", q.order.len()));
    }
    if q.first.is_some() {
        out.push("first".into());
    }
    if q.skip.is_some() {
        out.push("skip".into());
    }
    if let Some((a, _, _)) = &q.paging {
        out.push(if *a { "after".into() } else { "before".into() });
    }
    if !q.aggs.is_empty() {
        out.push("aggregate".into());
    }
    if !q.having.is_empty() {
        out.push("having".into());
    }
    for s in &q.sels {
        if let Sel::Nested { sub, nullable, .. } = s {
            out.push(if *nullable { "nested-nullable".into() } else { "nested".into() });
            clause_kinds(sub, out);
        }
    }
}

fn run_case<'a>(ctx: &'a Ctx, case: u64, acc: &'a mut Acc) -> CaseFut<'a> {
    Box::pin(async move {
        let mut rng = ctx.rng(case);
        clock_set(T0 + case as i64 * 1_000_000);
        clock_step(1);
        let conn = rusqlite::Connection::open_in_memory().unwrap();
        prepare_connection(&conn).unwrap();
        let mut db = Db { conn, dm: DataModel::new() };
        db.dm.update(MODEL_V1).unwrap();
        // data under v1 then v2
        let mut owners: Vec<String> = Vec::new();
        let mut tags: Vec<String> = Vec::new();
        let mut things: Vec<String> = Vec::new();
        let id_of = |q: &MutationQuery| b64(&q.mutate_entities[0].node_to_mutate.id);
        for _ in 0..rng.gen_range(0..5) {
            let mut p = Parameters::new();
            p.add("name", rand_value(&mut rng, &T::Str).as_str().unwrap().to_string()).unwrap();
            p.add("n", rand_value(&mut rng, &T::Int).as_i64().unwrap()).unwrap();
            owners.push(id_of(&db.mutate("mutate { Owner{ name:$name n:$n } }", p).unwrap()));
        }
        for _ in 0..rng.gen_range(0..6) {
            let mut p = Parameters::new();
            p.add("label", rand_value(&mut rng, &T::Str).as_str().unwrap().to_string()).unwrap();
            p.add("w", rand_value(&mut rng, &T::Int).as_i64().unwrap()).unwrap();
            tags.push(id_of(&db.mutate("mutate { Tag{ label:$label w:$w } }", p).unwrap()));
        }
        let n_items = rng.gen_range(0..22);
        let switch_at = rng.gen_range(0..=n_items);
        let mut write_item = |db: &Db, rng: &mut StdRng, v2: bool| {
            let mut p = Parameters::new();
            let mut body = String::from("i:$i s:$s b:$b ");
            p.add("i", rand_value(rng, &T::Int).as_i64().unwrap()).unwrap();
            p.add("s", rand_value(rng, &T::Str).as_str().unwrap().to_string()).unwrap();
            p.add("b", rng.gen_bool(0.5)).unwrap();
            if rng.gen_bool(0.6) {
                p.add("f", rand_value(rng, &T::Float).as_f64().unwrap()).unwrap();
                body.push_str("f:$f ");
            }
            if v2 {
                if rng.gen_bool(0.5) {
                    p.add("d", rand_value(rng, &T::Int).as_i64().unwrap()).unwrap();
                    body.push_str("d:$d ");
                }
                if rng.gen_bool(0.5) {
                    p.add("e", rand_value(rng, &T::Str).as_str().unwrap().to_string()).unwrap();
                    body.push_str("e:$e ");
                }
                if rng.gen_bool(0.5) {
                    p.add("g", rand_value(rng, &T::Str).as_str().unwrap().to_string()).unwrap();
                    body.push_str("g:$g ");
                }
            }
            if !owners.is_empty() && rng.gen_bool(0.6) {
                p.add("owner", owners[rng.gen_range(0..owners.len())].clone()).unwrap();
                body.push_str("owner:{id:$owner} ");
            }
            if !tags.is_empty() && rng.gen_bool(0.7) {
                let k = rng.gen_range(1..=tags.len().min(3));
                let mut ts = tags.clone();
                ts.shuffle(rng);
                let mut arr = Vec::new();
                for (j, t) in ts.iter().take(k).enumerate() {
                    p.add(&format!("t{}", j), t.clone()).unwrap();
                    arr.push(format!("{{id:$t{}}}", j));
                }
                body.push_str(&format!("tags:[{}] ", arr.join(",")));
            }
            db.mutate(&format!("mutate {{ Item{{ {} }} }}", body), p).map(|_| ())
        };
        for _ in 0..switch_at {
            if let Err(e) = write_item(&db, &mut rng, false) {
                acc.violation("C05/valid-mutation-refused", json!({"error": e}));
                return;
            }
        }
        for _ in 0..rng.gen_range(0..5) {
            let mut p = Parameters::new();
            p.add("t", rand_value(&mut rng, &T::Str).as_str().unwrap().to_string()).unwrap();
            things.push(id_of(&db.mutate("mutate { ns.Thing{ t:$t } }", p).unwrap()));
        }
        db.dm.update(MODEL_V2).unwrap();
        for _ in switch_at..n_items {
            if let Err(e) = write_item(&db, &mut rng, true) {
                acc.violation("C05/valid-mutation-refused", json!({"error": e}));
                return;
            }
        }
        for _ in 0..rng.gen_range(0..6) {
            let mut p = Parameters::new();
            let mut body = String::from("t:$t ");
            p.add("t", rand_value(&mut rng, &T::Str).as_str().unwrap().to_string()).unwrap();
            if rng.gen_bool(0.6) {
                p.add("v", rand_value(&mut rng, &T::Int).as_i64().unwrap()).unwrap();
                body.push_str("v:$v ");
            }
            if rng.gen_bool(0.5) {
                p.add("j", rand_value(&mut rng, &T::Json).to_string()).unwrap();
                body.push_str("j:$j ");
            }
            if rng.gen_bool(0.5) {
                p.add("k", rand_value(&mut rng, &T::Float).as_f64().unwrap()).unwrap();
                body.push_str("k:$k ");
            }
            if !things.is_empty() && rng.gen_bool(0.6) {
                p.add("o", things[rng.gen_range(0..things.len())].clone()).unwrap();
                body.push_str("others:[{id:$o}] ");
            }
            things.push(id_of(&db.mutate(&format!("mutate {{ ns.Thing{{ {} }} }}", body), p).unwrap()));
        }
        let w = build_world(&db);
        let total_rows: usize = w.rows.values().map(|v| v.len()).sum();
        acc.count("rows_generated", total_rows as u64);

        let n_queries = ctx.tier.pick(24, 40);
        let mut violated = false;
        for qi in 0..n_queries {
            let ename = ["Item", "Item", "Item", "Owner", "Tag", "ns.Thing", "ns.Thing"][rng.gen_range(0..7)];
            let aggregate = rng.gen_bool(0.2);
            let mut q = if aggregate {
                let e = ent(ename);
                let mut q = Qry { entity: ename.to_string(), ..Default::default() };
                let groupable: Vec<&F> = e.scalars.iter().filter(|x| matches!(x.ty, T::Int | T::Str)).collect();
                if rng.gen_bool(0.6) {
                    let g = groupable[rng.gen_range(0..groupable.len())];
                    q.sels.push(Sel::Scalar { field: g.name.to_string(), alias: None });
                }
                q.aggs.push(("c".into(), AggFn::Count));
                let nums: Vec<&F> = e.scalars.iter().filter(|x| matches!(x.ty, T::Int | T::Float)).collect();
                if !nums.is_empty() {
                    let x = nums[rng.gen_range(0..nums.len())].name.to_string();
                    match rng.gen_range(0..4) {
                        0 => q.aggs.push(("sm".into(), AggFn::Sum(x))),
                        1 => q.aggs.push(("av".into(), AggFn::Avg(x))),
                        2 => q.aggs.push(("mi".into(), AggFn::Min(x))),
                        _ => q.aggs.push(("ma".into(), AggFn::Max(x))),
                    }
                }
                for _ in 0..rng.gen_range(0..=1) {
                    if let Some(fl) = rand_filter(&mut rng, &e, &q.sels) {
                        q.filters.push(fl);
                    }
                }
                if rng.gen_bool(0.3) {
                    q.having.push(("c".into(), [">", ">=", "<"][rng.gen_range(0..3)], rng.gen_range(1..3)));
                }
                q
            } else {
                rand_query(&mut rng, ename, 0)
            };
            if rng.gen_bool(0.2) {
                q.alias = Some(format!("res{}", qi));
            }
            let res_name = q.alias.clone().unwrap_or(q.entity.clone());
            let run = |q: &Qry| -> (String, Result<Vec<Value>, String>) {
                let mut cx = TextCtx { params: Vec::new() };
                let text = format!("query {{ {} }}", q.text(true, "", &mut cx));
                let r = db.query(&text, params_of(&cx)).map(|v| v[&res_name].as_array().cloned().unwrap_or_default());
                (text, r)
            };
            let (text, got) = run(&q);
            let expected: Vec<Value> = eval(&w, &q, w.rows[&q.entity].clone()).into_iter().map(|x| x.1).collect();
            acc.count("queries", 1);
            let mut kinds = Vec::new();
            clause_kinds(&q, &mut kinds);
            kinds.sort();
            kinds.dedup();
            let kind_key = format!("{}:{}", q.entity, kinds.join("+"));
            match got {
                Err(e) => {
                    let engine = e.starts_with("read:");
                    let mech = if q.aggs.is_empty() { kinds.first().cloned().unwrap_or_default() } else { "aggregate".to_string() };
                    acc.violation(
                        format!("C05/{}/{}", if engine { "valid-query-rejected-by-the-engine" } else { "valid-query-refused" }, mech),
                        json!({"query": text, "error": e}),
                    );
                    violated = true;
                    continue;
                }
                Ok(got) => {
                    let same = if q.order.is_empty() { multiset_eq(&got, &expected) } else { got.len() == expected.len() && got.iter().zip(expected.iter()).all(|(a, b)| json_eq(a, b)) };
                    if !same {
                        // attribute to the clause families present, most specific first
                        let e = ent(&q.entity);
                        let has_default = |n: &String| e.scalars.iter().any(|x| x.name == n && x.default.is_some());
                        fn same_name_twice(q: &Qry) -> bool {
                            q.sels.iter().any(|s| match s {
                                Sel::Nested { field, alias, sub, .. } => {
                                    let outer = alias.clone().unwrap_or(field.clone());
                                    sub.sels.iter().any(|t| matches!(t, Sel::Nested { field: f2, alias: a2, .. } if a2.clone().unwrap_or(f2.clone()) == outer))
                                        || same_name_twice(sub)
                                }
                                _ => false,
                            })
                        }
                        let mech = if !q.aggs.is_empty() {
                            let (a, fld) = match &q.aggs.last().unwrap().1 {
                                AggFn::Count => ("count", None),
                                AggFn::Sum(f) => ("sum", Some(f)),
                                AggFn::Avg(f) => ("avg", Some(f)),
                                AggFn::Min(f) => ("min", Some(f)),
                                AggFn::Max(f) => ("max", Some(f)),
                            };
                            let grouped_default = q.sels.iter().any(|s| matches!(s, Sel::Scalar { field, .. } if has_default(field)));
                            if fld.map(|f| has_default(f)).unwrap_or(false) {
                                "aggregate-over-a-default-filled-field".to_string()
                            } else if grouped_default {
                                "aggregate-grouped-by-a-default-filled-field".to_string()
                            } else {
                                format!("aggregate-{}", a)
                            }
                        } else if q.order.iter().any(|(n, _)| has_default(n)) {
                            "order-by-default-filled-field".to_string()
                        } else if same_name_twice(&q) {
                            "same-reference-field-nested-at-two-levels-without-alias".to_string()
                        } else if q.filters.iter().any(|f| has_default(&f.field)) {
                            "filter-on-default-filled-field".to_string()
                        } else if q.filters.iter().any(|f| f.value.is_null()) {
                            "null-filter".to_string()
                        } else if q.sels.iter().any(|s| matches!(s, Sel::Nested { .. })) {
                            "nested".to_string()
                        } else if !q.filters.is_empty() {
                            "filter".to_string()
                        } else {
                            "other".to_string()
                        };
                        acc.violation(
                            format!("C05/result-differs-from-direct-evaluation/{}", mech),
                            json!({"query": text, "returned": got.iter().take(8).collect::<Vec<_>>(), "returned_len": got.len(), "expected": expected.iter().take(8).collect::<Vec<_>>(), "expected_len": expected.len()}),
                        );
                        violated = true;
                        continue;
                    }
                    let table = w.rows[&q.entity].len();
                    if kinds.len() >= 2 && !expected.is_empty() && expected.len() < table {
                        acc.nontrivial(kind_key.clone());
                    }
                    acc.distinct("clause_kinds", kind_key);
                    // paging monitors on totally ordered, unaggregated, unlimited queries selecting the order keys
                    if q.aggs.is_empty() && !q.order.is_empty() && !expected.is_empty() && rng.gen_bool(0.5) {
                        let mut base = q.clone();
                        base.first = None;
                        base.skip = None;
                        let e = ent(&q.entity);
                        let full = eval(&w, &base, w.rows[&q.entity].clone());
                        if full.is_empty() {
                            continue;
                        }
                        // (i) forward walk
                        let page = rng.gen_range(1..4);
                        let mut walked: Vec<Value> = Vec::new();
                        let mut cursor: Option<Vec<Value>> = None;
                        let as_param = rng.gen_bool(0.5);
                        let mut steps = 0;
                        loop {
                            let mut pq = base.clone();
                            pq.first = Some(page);
                            if let Some(c) = &cursor {
                                pq.paging = Some((true, c.clone(), as_param));
                            }
                            let (t, r) = run(&pq);
                            steps += 1;
                            match r {
                                Err(err) => {
                                    acc.violation("C05/paging/valid-paged-query-refused", json!({"query": t, "error": err}));
                                    violated = true;
                                    break;
                                }
                                Ok(rows) => {
                                    if rows.is_empty() || steps > 60 {
                                        break;
                                    }
                                    let n = rows.len();
                                    walked.extend(rows);
                                    // cursor = order keys of the last row walked, from the reference rows
                                    let idx = walked.len() - 1;
                                    if idx >= full.len() {
                                        break;
                                    }
                                    let last = &full[idx].0;
                                    cursor = Some(base.order.iter().map(|(k, _)| w.eff(&e, last, k)).collect());
                                    if n < page {
                                        break;
                                    }
                                }
                            }
                        }
                        acc.count("paging_walks", 1);
                        let full_vals: Vec<Value> = full.iter().map(|x| x.1.clone()).collect();
                        if !violated && !(walked.len() == full_vals.len() && walked.iter().zip(full_vals.iter()).all(|(a, b)| json_eq(a, b))) {
                            let mut cx = TextCtx { params: Vec::new() };
                            let dflt = base.order.iter().any(|(n, _)| e.scalars.iter().any(|x| x.name == n && x.default.is_some()));
                            acc.violation(
                                if dflt { "C05/paging/forward-walk-skips-or-repeats-rows/order-key-is-a-default-filled-field" } else { "C05/paging/forward-walk-skips-or-repeats-rows" },
                                json!({"query": base.text(true, "", &mut cx), "page_size": page, "walked": walked.len(), "expected": full_vals.len(), "cursor_as_parameter": as_param}),
                            );
                            violated = true;
                        }
                        // (ii) partition around one row
                        let ci = rng.gen_range(0..full.len());
                        let c: Vec<Value> = base.order.iter().map(|(k, _)| w.eff(&e, &full[ci].0, k)).collect();
                        let mut bq = base.clone();
                        bq.paging = Some((false, c.clone(), as_param));
                        let mut aq = base.clone();
                        aq.paging = Some((true, c.clone(), as_param));
                        let (tb, rb) = run(&bq);
                        let (_ta, ra) = run(&aq);
                        if let (Ok(rb), Ok(ra)) = (rb, ra) {
                            acc.count("paging_partitions", 1);
                            if rb.len() != ci || ra.len() != full.len() - ci - 1 {
                                let dflt = base.order.iter().any(|(n, _)| e.scalars.iter().any(|x| x.name == n && x.default.is_some()));
                                acc.violation(
                                    if dflt { "C05/paging/before-and-after-do-not-partition-the-result/order-key-is-a-default-filled-field" } else { "C05/paging/before-and-after-do-not-partition-the-result" },
                                    json!({"query_before": tb, "cursor_index": ci, "before": rb.len(), "after": ra.len(), "total": full.len()}),
                                );
                                violated = true;
                            }
                        }
                    }
                }
            }
        }
        acc.evaluations += n_queries as u64 - 1;
        if !violated {
            acc.held(None);
        }
        if case % 16 == 0 {
            let q = rand_query(&mut rng, "Item", 0);
            let mut cx = TextCtx { params: Vec::new() };
            acc.sample(json!({"rows": total_rows, "query": q.text(true, "", &mut cx)}));
        }
    })
}
