//! C18 — Every committed change is announced.
use crate::props::c01::entity_name;
use crate::props::c10::axes;
use crate::repl::{Op, OpOutcome, Scenario};
use crate::rights::matrix_of_room;
use crate::runner::{Acc, CaseFut, Ctx, PropDef};
use crate::snapshot::{diff, Change, Snapshot};
use crate::util::{b64, clock_set, day_of, DAY};
use crate::world::{RightSpec, RoomEdit};
use discret::verif::security::Uid;
use discret::{Event, Parameters, ParametersAdd};
use rand::Rng;
use serde_json::{json, Value};
use std::collections::BTreeSet;
use std::sync::{Arc, Mutex};
use std::time::Duration;
use tokio::sync::broadcast;

pub static DEF: PropDef = PropDef {
    id: "C18",
    level: "exploration",
    rule: "two real database services, two rooms, three entities, several days; one to three subscribers per instance subscribe before the workload and are drained immediately into an unbounded log (a lagging receiver makes the case inconclusive). Sequential phase: API writes (create, nested create, update moving a row to another day, move between rooms, reference changes, node and reference deletions, stream of mutations), room definition changes and pulls; after each acknowledged operation and the recompute barrier, the (room, entity, day) triples derived from the before/after storage snapshots must all have been named by some data-changed event of that instance, and an accepted room mutation must be followed by a room-modified event carrying the same decisions as the live room. Concurrent phase: 8-24 writers at once on an instance with write_buffer_length 1-4, same inclusion check after the barrier. Only inclusion is checked. non-trivial = case with a deletion, a pull that changed rows, a concurrent phase, and at least two days; distinct = canonical op-kind sequence Only what is announced after the monitored operation began counts; every history starts with a row that is alone of its entity in its room and is then moved to the second room.",
    assumptions: &[
        "the barrier (database actor, writer, database actor, event service round trips) orders the check after the emission of the events of every request already acknowledged",
    ],
    cases: |t| t.pick(160, 1500),
    shards: |t| t.pick(12, 16),
    case_budget_s: |_| 240,
    min_conclusive: |t| t.pick(30, 500),
    run_case,
    finish: None,
    worker_threads: 4,
    tokio_per_case: true,
};

#[derive(Default)]
struct EventLog {
    data: BTreeSet<(String, String, i64)>,
    rooms: Vec<Arc<discret::Room>>,
    lagged: bool,
    count: u64,
}

fn drain(mut rx: broadcast::Receiver<Event>, log: Arc<Mutex<EventLog>>) {
    tokio::spawn(async move {
        loop {
            match rx.recv().await {
                Ok(Event::DataChanged(d)) => {
                    let mut l = log.lock().unwrap();
                    l.count += 1;
                    for (room, ents) in &d.rooms {
                        for (ent, days) in ents {
                            for day in days {
                                l.data.insert((room.clone(), ent.clone(), *day));
                            }
                        }
                    }
                }
                Ok(Event::RoomModified(r)) => {
                    let mut l = log.lock().unwrap();
                    l.count += 1;
                    l.rooms.push(r);
                }
                Ok(_) => {}
                Err(broadcast::error::RecvError::Lagged(_)) => {
                    log.lock().unwrap().lagged = true;
                }
                Err(_) => break,
            }
        }
    });
}

/// triples a change of storage must be announced with; `None` day = any day of that room/entity
fn expected_triples(before: &Snapshot, after: &Snapshot, rooms: &[Uid]) -> Vec<(Uid, String, Option<i64>)> {
    let mut out = Vec::new();
    for c in diff(before, after) {
        match c {
            Change::NodeAdded(n) => {
                if let (Some(r), Some(e)) = (n.room_id, entity_name(&n._entity)) {
                    out.push((r, e.to_string(), Some(day_of(n.mdate))));
                }
            }
            Change::NodeChanged(o, n) => {
                if let (Some(r), Some(e)) = (n.room_id, entity_name(&n._entity)) {
                    out.push((r, e.to_string(), Some(day_of(n.mdate))));
                }
                if o.room_id != n.room_id {
                    if let (Some(r), Some(e)) = (o.room_id, entity_name(&o._entity)) {
                        out.push((r, e.to_string(), None));
                    }
                }
            }
            Change::NodeDelAdded(d) => {
                if let Some(e) = entity_name(&d.entity) {
                    out.push((d.room_id, e.to_string(), Some(day_of(d.deletion_date))));
                }
            }
            Change::EdgeDelAdded(d) => {
                if let Some(e) = entity_name(&d.src_entity) {
                    out.push((d.room_id, e.to_string(), Some(day_of(d.deletion_date))));
                }
            }
            _ => {}
        }
    }
    out.retain(|t| rooms.contains(&t.0));
    out
}

async fn settle(log: &Arc<Mutex<EventLog>>) {
    // the events have been handed to the broadcast channel; let the drain tasks run
    let mut last = u64::MAX;
    for _ in 0..50 {
        tokio::task::yield_now().await;
        tokio::time::sleep(Duration::from_millis(2)).await;
        let c = log.lock().unwrap().count;
        if c == last {
            break;
        }
        last = c;
    }
}

fn missing(log: &Arc<Mutex<EventLog>>, exp: &[(Uid, String, Option<i64>)]) -> Option<(Uid, String, Option<i64>)> {
    let l = log.lock().unwrap();
    for (r, e, d) in exp {
        let r64 = b64(r);
        let found = match d {
            Some(d) => l.data.contains(&(r64.clone(), e.clone(), *d)),
            None => l.data.iter().any(|x| x.0 == r64 && &x.1 == e),
        };
        if !found {
            return Some((*r, e.clone(), *d));
        }
    }
    None
}

fn run_case<'a>(ctx: &'a Ctx, case: u64, acc: &'a mut Acc) -> CaseFut<'a> {
    Box::pin(async move {
        let mut rng = ctx.rng(case);
        let dir = ctx.case_dir(case);
        let mut sc = match Scenario::new(&dir, ctx.case_seed(case), 2, true).await {
            Ok(s) => s,
            Err(e) => {
                acc.inconclusive(e);
                return;
            }
        };
        if let Err(e) = sc.add_second_room().await {
            acc.inconclusive(e);
            return;
        }
        let rooms = vec![sc.room.id, sc.room2.as_ref().unwrap().id];
        // subscribers, before the workload
        let mut logs: Vec<Arc<Mutex<EventLog>>> = Vec::new();
        for p in &sc.peers {
            let log = Arc::new(Mutex::new(EventLog::default()));
            let n_sub = rng.gen_range(1..=3);
            for _ in 0..n_sub {
                drain(p.subscribe().await, log.clone());
            }
            acc.count("subscribers", n_sub);
            logs.push(log);
        }
        let n_ops = rng.gen_range(8..ctx.tier.pick(20, 36));
        let mut kinds: Vec<String> = Vec::new();
        let (mut had_deletion, mut had_pull_change, mut had_concurrent) = (false, false, false);
        let t_start = sc.t;
        for step in 0..n_ops {
            let tick = sc.random_tick(&mut rng);
            sc.apply(&tick).await;
            let k = rng.gen_range(0..100);
            // every history starts with a row that is alone of its entity in the room, then moved to the second room:
            // the (room, entity, day) it leaves becomes empty
            let forced_op = match step {
                0 => Some(Op::Create { peer: 0, entity: 2 }),
                1 => Some(Op::Move { peer: 0, row: sc.rows.len().saturating_sub(1), to_second: true }),
                _ => None,
            };
            let k = if forced_op.is_some() { 99 } else { k };
            let n_peers = 2;
            if k < 10 {
                // room definition change by the admin (peer 0)
                let mut h = sc.room.clone();
                let edit = RoomEdit::Right(0, RightSpec { entity: ["Person", "Pet", "ns.Thing"][rng.gen_range(0..3)].to_string(), own: true, all: rng.gen_bool(0.8) });
                let n_before = logs[0].lock().unwrap().rooms.len();
                if sc.peers[0].edit_room(&mut h, &edit).await.is_ok() {
                    sc.room = h;
                    sc.peers[0].barrier().await;
                    settle(&logs[0]).await;
                    kinds.push("room-edit".into());
                    acc.count("room_mutations", 1);
                    let live = sc.peers[0].room(sc.room.id).await.unwrap();
                    let (keys, ents, dates) = axes(&sc.room.model, &[]);
                    let mut want = matrix_of_room(&live, &keys, &ents, &dates);
                    want.sort();
                    let l = logs[0].lock().unwrap();
                    let ok = l.rooms[n_before..].iter().any(|r| {
                        if r.id != sc.room.id {
                            return false;
                        }
                        let mut got = matrix_of_room(r, &keys, &ents, &dates);
                        got.sort();
                        got == want
                    });
                    if l.lagged {
                        drop(l);
                        acc.inconclusive("a subscriber lagged");
                        return;
                    }
                    if !ok {
                        drop(l);
                        acc.violation(
                            "C18/room-mutation-without-room-modified-event-carrying-the-new-definition",
                            json!({"edit": edit.describe(), "history": sc.log}),
                        );
                        return;
                    }
                }
                continue;
            }
            if k < 22 {
                // concurrent phase on one peer: many writers at once
                let peer = rng.gen_range(0..n_peers);
                let writers = rng.gen_range(8..24);
                let before = sc.peers[peer].snapshot().await;
                logs[peer].lock().unwrap().data.clear();
                let room_ids: Vec<String> = rooms.iter().map(|r| b64(r)).collect();
                let futs = (0..writers).map(|i| {
                    let p = &sc.peers[peer];
                    let room = room_ids[i % 2].clone();
                    let ent = ["Person", "Pet", "ns.Thing"][i % 3];
                    let field = if ent == "ns.Thing" { "label" } else { "name" };
                    async move {
                        let mut prm = Parameters::new();
                        prm.add("room", room).unwrap();
                        prm.add("v", format!("w{}", i)).unwrap();
                        p.mutate(&format!("mutate {{ {}{{ room_id:$room {}:$v }} }}", ent, field), Some(prm)).await.is_ok()
                    }
                });
                let res = futures::future::join_all(futs).await;
                acc.count("concurrent_writes_acknowledged", res.iter().filter(|r| **r).count() as u64);
                sc.peers[peer].barrier().await;
                settle(&logs[peer]).await;
                let after = sc.peers[peer].snapshot().await;
                let exp = expected_triples(&before, &after, &rooms);
                acc.count("triples_expected", exp.len() as u64);
                had_concurrent = true;
                kinds.push("concurrent".into());
                if logs[peer].lock().unwrap().lagged {
                    acc.inconclusive("a subscriber lagged");
                    return;
                }
                if let Some(m) = missing(&logs[peer], &exp) {
                    acc.violation(
                        "C18/committed-change-not-announced/concurrent-writers",
                        json!({"peer": peer, "missing": {"room": b64(&m.0), "entity": m.1, "day": m.2}, "writers": writers, "history": sc.log}),
                    );
                    return;
                }
                continue;
            }
            let op = if let Some(f) = forced_op {
                f
            } else if k < 40 {
                if rng.gen_bool(0.2) {
                    Op::Pull2 { dst: rng.gen_range(0..2), src: rng.gen_range(0..2) }
                } else {
                    sc.random_pull(&mut rng)
                }
            } else if k < 50 {
                Op::Move { peer: rng.gen_range(0..2), row: rng.gen_range(0..1000), to_second: rng.gen_bool(0.5) }
            } else if k < 56 {
                Op::StreamCreate { peer: rng.gen_range(0..2), n: rng.gen_range(2..6) }
            } else {
                sc.random_write(&mut rng, true)
            };
            // peers whose storage the op may change
            let affected: Vec<usize> = match &op {
                Op::Pull { dst, .. } | Op::Pull2 { dst, .. } => vec![*dst],
                Op::PullBoth { a, b } => vec![*a, *b],
                Op::Create { peer, .. } | Op::CreateNested { peer } | Op::Update { peer, .. } | Op::UpdateThroughParent { peer, .. } | Op::SetPet { peer, .. } | Op::ClearPet { peer, .. } | Op::AddParent { peer, .. } | Op::ClearParents { peer, .. } | Op::DeleteNode { peer, .. } | Op::DeleteRef { peer, .. } | Op::Move { peer, .. } | Op::StreamCreate { peer, .. } => vec![*peer],
                _ => vec![],
            };
            let mut befores = Vec::new();
            for p in &affected {
                befores.push(sc.peers[*p].snapshot().await);
            }
            // only what is announced from now on counts for this operation (an earlier announcement of the same room,
            // entity and day says nothing about it)
            for p in &affected {
                logs[*p].lock().unwrap().data.clear();
            }
            let out = sc.apply(&op).await;
            let kind = format!("{:?}", op).split_whitespace().next().unwrap_or("").to_string();
            kinds.push(kind.clone());
            acc.count(&format!("op/{}", kind), 1);
            for (i, p) in affected.iter().enumerate() {
                sc.peers[*p].barrier().await;
                settle(&logs[*p]).await;
                let after = sc.peers[*p].snapshot().await;
                let exp = expected_triples(&befores[i], &after, &rooms);
                acc.count("triples_expected", exp.len() as u64);
                if !exp.is_empty() {
                    match &op {
                        Op::DeleteNode { .. } | Op::DeleteRef { .. } => had_deletion = true,
                        Op::Pull { .. } | Op::PullBoth { .. } | Op::Pull2 { .. } => had_pull_change = true,
                        _ => {}
                    }
                }
                if logs[*p].lock().unwrap().lagged {
                    acc.inconclusive("a subscriber lagged");
                    return;
                }
                if let Some(m) = missing(&logs[*p], &exp) {
                    let how = match &op {
                        Op::Pull { .. } | Op::PullBoth { .. } | Op::Pull2 { .. } => "synchronised-batch",
                        Op::DeleteNode { .. } | Op::DeleteRef { .. } => "deletion",
                        Op::StreamCreate { .. } => "mutation-stream",
                        _ => "mutation",
                    };
                    acc.violation(
                        format!("C18/committed-change-not-announced/{}/{}", how, kind),
                        json!({"peer": p, "missing": {"room": b64(&m.0), "entity": m.1, "day": m.2}, "outcome": format!("{:?}", out).chars().take(100).collect::<String>(), "history": sc.log}),
                    );
                    return;
                }
            }
        }
        let days = (sc.t - t_start) >= DAY;
        let key = if had_deletion && had_pull_change && had_concurrent && days { Some(kinds.join(",")) } else { None };
        let total: u64 = logs.iter().map(|l| l.lock().unwrap().count).sum();
        acc.count("events_observed", total);
        acc.held(key);
        acc.sample(json!({"ops": kinds, "events_observed": total}));
        let _ = (clock_set, OpOutcome::Ticked);
        let _: Option<Value> = None;
    })
}
