//! C11 — A deleted row stays deleted.
//!
//! A per-peer tombstone monitor runs after every step of deletion-centred histories: once a peer holds
//! a deletion record for (row, version) it must never again show that row at that or an older version.
use crate::repl::{Op, OpOutcome, Scenario};
use crate::runner::{Acc, CaseFut, Ctx, PropDef};
use crate::snapshot::Snapshot;
use crate::util::{b64, DAY};
use rand::Rng;
use serde_json::{json, Value};

pub static DEF: PropDef = PropDef {
    id: "C11",
    level: "exploration",
    rule: "deletion-centred histories on 2-4 real database services sharing a room: rows and references are created and spread, one peer deletes a node or a reference (same day or later days than the last change), then every pull order of bounded length over the peers (exhaustive for 3 peers and length <= 4 in the first cases, seeded random longer ones after) is played with a tombstone monitor after each step, followed by pulls until quiescence; non-trivial = at some step a peer that holds the deletion pulled from a peer that still holds the row; distinct = distinct (peers, deletion placement, pull order) The update that precedes the deletion reaches only some peers, so that the others keep offering the older version. In some histories the deleting peer is not a member while the rows are written (disabled before, enabled afterwards); a deletion applied by a peer (received by a complete pull) counts whether or not the peer kept a record.",
    assumptions: &[
        "peers wired through the library's own synchronise_room / InboundQueryService over in-memory channels (hook H4)",
        "a row re-created under the same identifier is impossible through the API (identifiers are random), so any row seen at a version <= the deleted one is the deleted row",
    ],
    cases: |t| t.pick(160, 3000),
    shards: |t| t.pick(12, 16),
    case_budget_s: |_| 240,
    min_conclusive: |t| t.pick(60, 1000),
    run_case,
    finish: None,
    worker_threads: 4,
    tokio_per_case: true,
};

/// tombstone monitor: returns the first resurrection found on a peer
pub fn resurrected(s: &Snapshot) -> Option<(String, Value)> {
    for d in s.node_del.values() {
        for ((id, _), n) in &s.nodes {
            if id == &d.id && n.mdate <= d.mdate && n.room_id == Some(d.room_id) {
                return Some((
                    "node".to_string(),
                    json!({"row": b64(&d.id), "deleted_version": d.mdate, "deletion_date": d.deletion_date, "visible_version": n.mdate}),
                ));
            }
        }
    }
    for d in s.edge_del.values() {
        if let Some(e) = s.edges.get(&(d.src, d.label.clone(), d.dest)) {
            if e.cdate <= d.cdate && e.cdate < d.deletion_date {
                return Some((
                    "reference".to_string(),
                    json!({"src": b64(&d.src), "label": d.label, "dest": b64(&d.dest), "deleted_cdate": d.cdate, "visible_cdate": e.cdate}),
                ));
            }
        }
    }
    None
}

fn pull_orders(n: usize, len: usize) -> Vec<Vec<(usize, usize)>> {
    let mut pairs = Vec::new();
    for a in 0..n {
        for b in 0..n {
            if a != b {
                pairs.push((a, b));
            }
        }
    }
    let mut out: Vec<Vec<(usize, usize)>> = vec![vec![]];
    for _ in 0..len {
        let mut next = Vec::new();
        for o in &out {
            for p in &pairs {
                let mut v = o.clone();
                v.push(*p);
                next.push(v);
            }
        }
        out = next;
    }
    out
}

fn run_case<'a>(ctx: &'a Ctx, case: u64, acc: &'a mut Acc) -> CaseFut<'a> {
    Box::pin(async move {
        let mut rng = ctx.rng(case);
        let dir = ctx.case_dir(case);
        // the first cases walk the exhaustive list of pull orders (3 peers, length 3) round robin with
        // 4 deletion placements; later cases are random
        let exhaustive_orders = pull_orders(3, 3);
        let n_exh = (exhaustive_orders.len() * 4) as u64;
        let total = (DEF.cases)(ctx.tier);
        let use_exh = case < n_exh.min(total * 2 / 3);
        let (n_peers, order, placement): (usize, Vec<(usize, usize)>, usize) = if use_exh {
            // spread over the whole list whatever the number of cases
            let stride = (n_exh / (total * 2 / 3).max(1)).max(1);
            let idx = (case * stride) % n_exh;
            (
                3,
                exhaustive_orders[(idx / 4) as usize].clone(),
                (idx % 4) as usize,
            )
        } else {
            let n = rng.gen_range(2..=4);
            let len = rng.gen_range(3..=8);
            let mut o = Vec::new();
            for _ in 0..len {
                let a = rng.gen_range(0..n);
                let mut b = rng.gen_range(0..n);
                if a == b {
                    b = (a + 1) % n;
                }
                o.push((a, b));
            }
            (n, o, rng.gen_range(0..4))
        };
        let mut sc = match Scenario::new(&dir, ctx.case_seed(case), n_peers, true).await {
            Ok(s) => s,
            Err(e) => {
                acc.inconclusive(format!("scenario start failed: {}", e));
                return;
            }
        };
        // in some histories the peer that will delete is not a member while the rows are written: it is disabled before,
        // enabled again afterwards (its right to delete exists at the deletion date, not at the rows' date)
        let late_joiner = n_peers >= 3 && rng.gen_bool(0.3);
        let late = n_peers - 1;
        if late_joiner {
            sc.tick(5);
            let key = sc.peers[late].id.vkey.clone();
            let mut h = sc.room.clone();
            if sc.peers[0].edit_room(&mut h, &crate::world::RoomEdit::User(0, key, false)).await.is_ok() {
                sc.room = h;
            }
        }
        // rows created on peer 0 and spread everywhere
        sc.tick(10);
        sc.apply(&Op::CreateNested { peer: 0 }).await;
        sc.tick(10);
        sc.apply(&Op::Create { peer: 0, entity: 0 }).await;
        sc.tick(10);
        // a reference between existing persons
        sc.apply(&Op::AddParent { peer: 0, row: 0, parent: 2 }).await;
        if late_joiner {
            sc.tick(50);
            let key = sc.peers[late].id.vkey.clone();
            let mut h = sc.room.clone();
            if sc.peers[0].edit_room(&mut h, &crate::world::RoomEdit::User(0, key, true)).await.is_ok() {
                sc.room = h;
            }
            sc.tick(5);
            acc.count("late_joiner_histories", 1);
        }
        // the rows reach most peers before the deletion, not necessarily all of them: a peer may learn the deletion of a
        // row it never held
        for p in 1..n_peers {
            if p == 1 || (late_joiner && p == late) || rng.gen_bool(0.75) {
                sc.apply(&Op::Pull { dst: p, src: 0, cut: None }).await;
            }
        }
        // some peer updates the row before the deletion (possibly another day)
        let updater = rng.gen_range(0..n_peers);
        match placement {
            0 => sc.tick(5),
            1 => sc.tick(DAY + 5),
            2 => sc.tick(2 * DAY),
            _ => sc.tick(50),
        }
        if placement >= 2 {
            sc.apply(&Op::Update { peer: updater, row: 0 }).await;
            // the update reaches only some of the peers: the others keep offering the older version
            for p in 0..n_peers {
                if p != updater && rng.gen_bool(0.5) {
                    sc.apply(&Op::Pull { dst: p, src: updater, cut: None }).await;
                }
            }
            sc.tick(if placement == 2 { 7 } else { DAY });
        }
        // the deletion: node or reference, by a random peer
        let deleter = if late_joiner {
            late
        } else if rng.gen_bool(0.5) {
            rng.gen_range(0..2.min(n_peers))
        } else {
            rng.gen_range(0..n_peers)
        };
        let del_ref = rng.gen_bool(0.35);
        let del = if del_ref {
            Op::DeleteRef { peer: deleter, row: 0, parent: 2 }
        } else {
            Op::DeleteNode { peer: deleter, row: rng.gen_range(0..3) }
        };
        let out = sc.apply(&del).await;
        if !matches!(out, OpOutcome::Accepted) {
            acc.inconclusive(format!("deletion not accepted: {:?}", out));
            return;
        }
        acc.count(if del_ref { "reference_deletions" } else { "node_deletions" }, 1);
        // the pull order under test, peers renamed so that the deleter is involved
        let mut stale_pull_seen = false;
        let mut violated = false;
        let mut steps = 0;
        // deletions a peer has applied: its own, and every record held by a peer it has pulled from since (a complete pull
        // delivers them), whether or not it kept a record itself
        let mut applied: Vec<std::collections::BTreeSet<(crate::snapshot::NodeKeyId, i64)>> = vec![Default::default(); n_peers];
        {
            let ds = sc.peers[deleter].snapshot().await;
            for d in ds.node_del.values() {
                applied[deleter].insert((d.id, d.mdate));
            }
        }
        for (dst, src) in &order {
            sc.tick(rng.gen_range(1..2000));
            // did dst already apply the deletion while src still shows the row?
            let ds = sc.peers[*dst].snapshot().await;
            let ss = sc.peers[*src].snapshot().await;
            let dst_has_tomb = ds.node_del.keys().any(|k| k.0 == sc.room.id)
                || ds.edge_del.keys().any(|k| k.0 == sc.room.id);
            let src_has_tomb = ss.node_del.keys().any(|k| k.0 == sc.room.id)
                || ss.edge_del.keys().any(|k| k.0 == sc.room.id);
            if dst_has_tomb && !src_has_tomb {
                stale_pull_seen = true;
            }
            // what the source holds before the pull is what a complete pull delivers
            let src_records: Vec<(crate::snapshot::NodeKeyId, i64)> = ss.node_del.values().filter(|d| d.room_id == sc.room.id).map(|d| (d.id, d.mdate)).collect();
            let src_applied: Vec<(crate::snapshot::NodeKeyId, i64)> = src_records;
            let out = sc.apply(&Op::Pull { dst: *dst, src: *src, cut: None }).await;
            let complete = match &out {
                OpOutcome::Pulled(stats) => stats.iter().all(|s| s.error.is_none()),
                _ => false,
            };
            if complete {
                for r in src_applied {
                    applied[*dst].insert(r);
                }
            }
            steps += 1;
            // a deletion that the peer has applied stays applied, record or not
            for (pi, p) in sc.peers.iter().enumerate() {
                let s = p.snapshot().await;
                for (id, deleted_version) in &applied[pi] {
                    if let Some(n) = s.nodes.values().find(|n| &n.id == id && n.mdate <= *deleted_version && n.room_id == Some(sc.room.id)) {
                        acc.violation(
                            "C11/resurrected/node/deletion-applied-without-a-record-kept",
                            json!({"peers": n_peers, "peer": pi, "row": b64(id), "deleted_version": deleted_version, "visible_version": n.mdate, "record_on_the_peer": s.node_del.values().any(|d| &d.id == id), "history": sc.log}),
                        );
                        violated = true;
                        break;
                    }
                }
                if violated {
                    break;
                }
            }
            if violated {
                break;
            }
            for (pi, p) in sc.peers.iter().enumerate() {
                let s = p.snapshot().await;
                acc.count("tombstone_checks", (s.node_del.len() + s.edge_del.len()) as u64);
                if let Some((kind, w)) = resurrected(&s) {
                    acc.violation(
                        format!("C11/resurrected/{}/after-pull-from-uninformed-peer", kind),
                        json!({"peers": n_peers, "peer": pi, "witness": w, "history": sc.log}),
                    );
                    violated = true;
                    break;
                }
            }
            if violated {
                break;
            }
        }
        acc.count("monitored_pull_steps", steps);
        if violated {
            return;
        }
        // final: after quiescence the row is absent everywhere and the record present everywhere
        let (_rounds, quiet, _) = sc.quiesce(&mut rng, 2 * n_peers + 2).await;
        if !quiet {
            acc.inconclusive("no quiescence within the bound (decided by C03)");
            return;
        }
        let mut snaps = Vec::new();
        for p in &sc.peers {
            snaps.push(p.snapshot().await);
        }
        for (pi, s) in snaps.iter().enumerate() {
            if let Some((kind, w)) = resurrected(s) {
                acc.violation(
                    format!("C11/resurrected/{}/at-quiescence", kind),
                    json!({"peer": pi, "witness": w, "history": sc.log}),
                );
                return;
            }
        }
        let mut all_nd = std::collections::BTreeSet::new();
        let mut all_ed = std::collections::BTreeSet::new();
        for s in &snaps {
            for (k, _) in &s.node_del {
                if k.0 == sc.room.id {
                    all_nd.insert(k.clone());
                }
            }
            for (k, _) in &s.edge_del {
                if k.0 == sc.room.id {
                    all_ed.insert(k.clone());
                }
            }
        }
        for (pi, s) in snaps.iter().enumerate() {
            for k in &all_nd {
                if !s.node_del.contains_key(k) {
                    acc.violation(
                        "C11/record-missing-at-quiescence/node",
                        json!({"peer": pi, "row": b64(&k.2), "history": sc.log}),
                    );
                    return;
                }
            }
            for k in &all_ed {
                if !s.edge_del.contains_key(k) {
                    acc.violation(
                        "C11/record-missing-at-quiescence/reference",
                        json!({"peer": pi, "src": b64(&k.2), "history": sc.log}),
                    );
                    return;
                }
            }
        }
        let key = if stale_pull_seen {
            Some(format!("{}/{}/{}/{:?}", n_peers, placement, del_ref, order))
        } else {
            None
        };
        acc.distinct("pull_orders", format!("{}/{:?}", n_peers, order));
        acc.held(key);
        acc.sample(json!({"peers": n_peers, "placement": placement, "reference_deletion": del_ref, "order": format!("{:?}", order), "history": sc.log.iter().take(30).collect::<Vec<_>>()}));
    })
}
