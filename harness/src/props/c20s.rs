//! C20, full-stack half: the exit paths of the room synchronisation task and the end of a connection.
//!
//! A real `Discret` owns 1..3 rooms; harness-played remote peers (members of the rooms) connect over
//! the NewConnection seam, prove their identity, announce the rooms and then answer the first query of
//! every room synchronisation the instance starts with a scripted behaviour: the instance's own summary
//! (nothing to do), the same after a delay, a failure, or the end of the connection. Connections are
//! ended and re-opened at random moments. The monitor reads the hooked event log
//! (sync_begin / sync_end / cleanup_unlock, keyed by connection) afterwards.
use crate::peer::{key_material, APP_KEY};
use crate::props::c19::{remote_identity, RemoteId};
use crate::runner::{Acc, Ctx};
use crate::util::{b64, clock_real, short};
use crate::world::MODEL;
use discret::verif::configuration::Configuration;
use discret::verif::database::system_entities::{Invite, Peer as SysPeer};
use discret::verif::hooks;
use discret::verif::network::ConnectionInfo;
use discret::verif::peer_connection_service::PeerConnectionMessage;
use discret::verif::security::{MeetingSecret, MeetingToken, SigningKey, Uid};
use discret::verif::synchronisation::{Answer, IdentityAnswer, Query, QueryProtocol, RemoteEvent};
use discret::{Discret, Parameters, ParametersAdd};
use rand::rngs::StdRng;
use rand::Rng;
use serde_json::{json, Value};
use std::collections::{HashMap, HashSet};
use std::sync::{Arc, Mutex};
use std::time::Duration;
use tokio::sync::mpsc;
use x25519_dalek::PublicKey;

#[derive(Clone, Copy, Debug, PartialEq, Eq)]
enum Beh {
    Same,
    SlowSame,
    Failure,
    EndConnection,
}

struct Live {
    stop: Arc<std::sync::atomic::AtomicBool>,
    task: tokio::task::JoinHandle<()>,
    event_tx: mpsc::Sender<RemoteEvent>,
}

#[allow(clippy::too_many_arguments)]
async fn connect(
    d: &Discret,
    who: &RemoteId,
    token: MeetingToken,
    conn_id: Uid,
    remote_id: Uid,
    rooms: Vec<Uid>,
    script: Vec<Beh>,
    log: Arc<Mutex<Vec<Value>>>,
) -> Option<Live> {
    let (d_answer_tx, h_answer_rx) = mpsc::channel::<Answer>(64);
    let (h_answer_tx, d_answer_rx) = mpsc::channel::<Answer>(64);
    let (d_query_tx, mut h_query_rx) = mpsc::channel::<QueryProtocol>(64);
    let (h_query_tx, d_query_rx) = mpsc::channel::<QueryProtocol>(64);
    let (d_event_tx, mut h_event_rx) = mpsc::channel::<RemoteEvent>(64);
    let (h_event_tx, d_event_rx) = mpsc::channel::<RemoteEvent>(64);
    let info = ConnectionInfo { endpoint_id: [1; 16], remote_id, conn_id, meeting_token: token, peer_verifying_key: who.vkey.clone() };
    let _ = d
        .verif_peers()
        .sender
        .send(PeerConnectionMessage::NewConnection(None, info, d_answer_tx, d_answer_rx, d_query_tx, d_query_rx, d_event_tx, d_event_rx))
        .await;
    // identity proof
    let q = tokio::time::timeout(Duration::from_secs(5), h_query_rx.recv()).await;
    match q {
        Ok(Some(QueryProtocol { id, query: Query::ProveIdentity(ch) })) => {
            let a = IdentityAnswer { peer: who.peer_node.clone(), chall_signature: who.signing.sign(&ch) };
            let _ = h_answer_tx.send(Answer { id, success: true, complete: true, serialized: bincode::serialize(&a).unwrap() }).await;
        }
        _ => return None,
    }
    match tokio::time::timeout(Duration::from_secs(5), h_event_rx.recv()).await {
        Ok(Some(RemoteEvent::Ready)) => {}
        Ok(Some(RemoteEvent::ReadyFingerprint)) => {
            // the instance wants the hardware check first: not part of this scenario
            return None;
        }
        _ => return None,
    }
    let _ = h_event_tx.send(RemoteEvent::Ready).await;
    let stop = Arc::new(std::sync::atomic::AtomicBool::new(false));
    let stop2 = stop.clone();
    let database = d.verif_services().database.clone();
    let c = conn_id[0];
    let ev_tx = h_event_tx.clone();
    let task = tokio::spawn(async move {
        // keeps every harness side end alive until the connection is ended
        let _keep = (h_query_tx, h_answer_rx);
        let mut nth = 0usize;
        loop {
            if stop2.load(std::sync::atomic::Ordering::SeqCst) {
                break;
            }
            let q = tokio::select! {
                q = h_query_rx.recv() => match q {
                    Some(q) => q,
                    None => break,
                },
                e = h_event_rx.recv() => {
                    if e.is_none() {
                        break;
                    }
                    continue;
                }
                _ = tokio::time::sleep(Duration::from_millis(20)) => continue,
            };
            match q.query {
                Query::RoomList => {
                    let list: std::collections::VecDeque<Uid> = rooms.iter().copied().collect();
                    let _ = h_answer_tx.send(Answer { id: q.id, success: true, complete: false, serialized: bincode::serialize(&list).unwrap() }).await;
                    let _ = h_answer_tx.send(Answer { id: q.id, success: true, complete: true, serialized: bincode::serialize(&"").unwrap() }).await;
                }
                Query::RoomDefinition(room) => {
                    let beh = script[nth % script.len()];
                    nth += 1;
                    log.lock().unwrap().push(json!({"conn": c, "room": short(&room), "first query of a synchronisation answered with": format!("{:?}", beh)}));
                    match beh {
                        Beh::Same | Beh::SlowSame => {
                            if beh == Beh::SlowSame {
                                tokio::time::sleep(Duration::from_millis(40)).await;
                            }
                            let def = database.get_room_definition(room).await.ok().flatten();
                            let _ = h_answer_tx.send(Answer { id: q.id, success: true, complete: true, serialized: bincode::serialize(&def).unwrap() }).await;
                        }
                        Beh::Failure => {
                            let _ = h_answer_tx
                                .send(Answer { id: q.id, success: false, complete: true, serialized: bincode::serialize(&discret::verif::synchronisation::Error::Technical).unwrap() })
                                .await;
                        }
                        Beh::EndConnection => break,
                    }
                }
                _ => {
                    let _ = h_answer_tx
                        .send(Answer { id: q.id, success: false, complete: true, serialized: bincode::serialize(&discret::verif::synchronisation::Error::Technical).unwrap() })
                        .await;
                }
            }
        }
        drop(ev_tx);
        // every channel end of the harness side is dropped here: the connection has ended
    });
    Some(Live { stop, task, event_tx: h_event_tx })
}

async fn end(l: Live) {
    l.stop.store(true, std::sync::atomic::Ordering::SeqCst);
    drop(l.event_tx);
    let _ = l.task.await;
}

/// waits until the hooked event log has not grown for `quiet` ms (bounded)
async fn drain(quiet: u64, max_ms: u64) {
    let start = std::time::Instant::now();
    let mut last = hooks::events().len();
    let mut since = std::time::Instant::now();
    while start.elapsed() < Duration::from_millis(max_ms) {
        tokio::time::sleep(Duration::from_millis(20)).await;
        let n = hooks::events().len();
        if n != last {
            last = n;
            since = std::time::Instant::now();
        } else if since.elapsed() > Duration::from_millis(quiet) {
            break;
        }
    }
}

pub fn run(ctx: &Ctx, case: u64, acc: &mut Acc) {
    let rt = tokio::runtime::Builder::new_multi_thread().worker_threads(4).enable_all().build().unwrap();
    rt.block_on(stack_case(ctx, case, acc));
    rt.shutdown_timeout(Duration::from_millis(500));
}

async fn stack_case(ctx: &Ctx, case: u64, acc: &mut Acc) {
    clock_real();
    hooks::clear_events();
    let mut rng: StdRng = ctx.rng(case);
    let dir = ctx.case_dir(case);
    let seed = ctx.case_seed(case);
    let limit = rng.gen_range(1..=2usize);
    let config = Configuration { parallelism: limit, enable_multicast: false, enable_beacons: false, ..Default::default() };
    std::fs::create_dir_all(dir.join("d")).unwrap();
    let d = match Discret::new(MODEL, APP_KEY, &key_material(seed, 0), dir.join("d"), config).await {
        Ok(d) => d,
        Err(e) => {
            acc.inconclusive(format!("Discret::new failed: {}", e));
            return;
        }
    };
    let n_remotes = rng.gen_range(2..=3);
    let remotes: Vec<RemoteId> = (1..=n_remotes).map(|i| remote_identity(seed, i as u64)).collect();
    // rooms with every remote as a member
    let n_rooms = rng.gen_range(1..=3);
    let mut rooms: Vec<Uid> = Vec::new();
    for _ in 0..n_rooms {
        let mut p = Parameters::new();
        p.add("me", b64(&d.verif_params().verifying_key)).unwrap();
        let mut users = String::from("{verif_key:$me}");
        for (i, r) in remotes.iter().enumerate() {
            p.add(&format!("k{}", i), b64(&r.vkey)).unwrap();
            users.push_str(&format!(",{{verif_key:$k{}}}", i));
        }
        let text = format!("mutate {{ sys.Room{{ admin:[{{verif_key:$me}}] authorisations:[{{ name:\"all\" rights:[{{entity:\"Person\" mutate_self:true mutate_all:true}}] users:[{}] }}] }} }}", users);
        match d.mutate(&text, Some(p)).await {
            Ok(r) => {
                let v: Value = serde_json::from_str(&r).unwrap_or(Value::Null);
                if let Some(id) = v["sys.Room"]["id"].as_str() {
                    let b = crate::util::unb64(id);
                    rooms.push(<[u8; 16]>::try_from(b.as_slice()).unwrap());
                }
            }
            Err(e) => {
                acc.inconclusive(format!("room creation failed: {}", e));
                return;
            }
        }
    }
    let d_peer = d.verif_services().database.get_peer_node(d.verif_params().verifying_key.clone()).await.ok().flatten();
    let Some(dp) = d_peer else {
        acc.inconclusive("no peer row of the instance");
        return;
    };
    let pk: PublicKey = bincode::deserialize(&SysPeer::pub_key(&dp).unwrap()).unwrap();
    let log: Arc<Mutex<Vec<Value>>> = Arc::new(Mutex::new(Vec::new()));
    let mut conn_n: u8 = 0;
    let mut live: Vec<(usize, Live)> = Vec::new();
    let mut invited: HashSet<usize> = HashSet::new();
    let mut steps: Vec<Value> = Vec::new();
    let behs = [Beh::Same, Beh::SlowSame, Beh::Failure, Beh::EndConnection];
    let n_steps = rng.gen_range(6..16);
    for _ in 0..n_steps {
        let action = rng.gen_range(0..100);
        if action < 45 || live.is_empty() {
            // open a connection for a remote
            let ri = rng.gen_range(0..remotes.len());
            let who = &remotes[ri];
            let token = if invited.contains(&ri) {
                who.meeting.token(&pk)
            } else {
                let bytes = match d.invite(None).await {
                    Ok(b) => b,
                    Err(_) => continue,
                };
                let inv: Invite = bincode::deserialize(&bytes).unwrap();
                MeetingSecret::derive_token("P", &inv.invite_id)
            };
            conn_n += 1;
            let conn_id = [conn_n; 16];
            // the circuit of the lock requests is derived from the remote endpoint id: one per remote, or a new one
            let mut remote_id = [0u8; 16];
            remote_id[0] = if rng.gen_bool(0.7) { ri as u8 + 1 } else { 100 + conn_n };
            let script: Vec<Beh> = (0..rng.gen_range(1..4)).map(|_| behs[rng.gen_range(0..4)]).collect();
            let l = connect(&d, who, token, conn_id, remote_id, rooms.clone(), script.clone(), log.clone()).await;
            steps.push(json!({"open": conn_n, "remote": ri, "circuit": remote_id[0], "script": script.iter().map(|b| format!("{:?}", b)).collect::<Vec<_>>(), "connected": l.is_some()}));
            if let Some(l) = l {
                invited.insert(ri);
                live.push((conn_n as usize, l));
            }
        } else if action < 70 {
            // the remote announces a change: a new synchronisation of that room is requested
            let (c, l) = &live[rng.gen_range(0..live.len())];
            let room = rooms[rng.gen_range(0..rooms.len())];
            let _ = l.event_tx.send(RemoteEvent::RoomDataChanged(room)).await;
            steps.push(json!({"conn": c, "announces change of": short(&room)}));
        } else if action < 90 {
            let i = rng.gen_range(0..live.len());
            let (c, l) = live.remove(i);
            steps.push(json!({"end": c}));
            end(l).await;
        } else {
            tokio::time::sleep(Duration::from_millis(rng.gen_range(5..60))).await;
        }
        tokio::time::sleep(Duration::from_millis(rng.gen_range(0..15))).await;
    }
    for (_, l) in live.drain(..) {
        end(l).await;
    }
    drain(300, 15_000).await;
    // bounded progress: a fresh peer on a fresh circuit gets every room
    let before_fresh = hooks::events().len();
    let Some(ri) = invited.iter().next().copied() else {
        acc.inconclusive("no connection was ever established");
        return;
    };
    let who = &remotes[ri];
    let token = who.meeting.token(&pk);
    conn_n += 1;
    let fresh = connect(&d, who, token, [conn_n; 16], [200; 16], rooms.clone(), vec![Beh::Same], log.clone()).await;
    if fresh.is_none() {
        acc.inconclusive("the final connection could not be established");
        return;
    }
    let mut granted: HashSet<Uid> = HashSet::new();
    if fresh.is_some() {
        let start = std::time::Instant::now();
        while start.elapsed() < Duration::from_secs(60) && granted.len() < rooms.len() {
            tokio::time::sleep(Duration::from_millis(25)).await;
            for e in hooks::events().iter().skip(before_fresh) {
                if e.1 == "sync_begin" {
                    granted.insert(e.3);
                }
            }
        }
    }
    if let Some(l) = fresh {
        end(l).await;
    }
    drain(300, 10_000).await;
    // every connection is gone: a synchronisation task that is still open can only be waiting for its own queries to
    // fail (at most the library's 10 s query allowance) or for the processor. It is given 90 s, not a quiet period: on
    // a loaded machine a quiet log says nothing
    let deadline = std::time::Instant::now() + Duration::from_secs(90);
    loop {
        let ev = hooks::events();
        let begun = ev.iter().filter(|e| e.1 == "sync_begin").count();
        let ended = ev.iter().filter(|e| e.1 == "sync_end").count();
        if begun == ended || std::time::Instant::now() > deadline {
            break;
        }
        tokio::time::sleep(Duration::from_millis(50)).await;
    }

    // ---- monitor over the event log
    let events = hooks::events();
    let witness = |why: &str| json!({"why": why, "limit": limit, "rooms": rooms.iter().map(|r| short(r)).collect::<Vec<_>>(), "steps": steps, "answers": log.lock().unwrap().clone(), "events": events.iter().map(|e| json!([e.0, e.1, e.2 % 100_000, short(&e.3)])).collect::<Vec<_>>()});
    let mut open: HashMap<Uid, Vec<usize>> = HashMap::new();
    let mut cleaned: HashSet<(usize, Uid)> = HashSet::new();
    let mut max_open = 0usize;
    let mut begins = 0u64;
    let mut overlaps_seen = false;
    let mut violated = false;
    for e in &events {
        match e.1.as_str() {
            "sync_begin" => {
                begins += 1;
                let holders = open.entry(e.3).or_default();
                if let Some(other) = holders.iter().find(|c| **c != e.2) {
                    overlaps_seen = true;
                    let ctxt = if cleaned.contains(&(*other, e.3)) { "the-first-connection-had-ended-but-its-task-still-ran" } else { "both-connections-live" };
                    acc.violation(format!("C20/two-connections-synchronise-one-room-at-the-same-time/{}", ctxt), witness("sync_begin for a room whose synchronisation by another connection has not ended"));
                    violated = true;
                    break;
                }
                holders.push(e.2);
                let total: usize = open.values().map(|v| v.len()).sum();
                max_open = max_open.max(total);
                if total > limit {
                    acc.violation("C20/more-rooms-synchronised-at-once-than-the-limit", witness("more open synchronisations than the configured limit"));
                    violated = true;
                    break;
                }
            }
            "sync_end" => {
                if let Some(h) = open.get_mut(&e.3) {
                    if let Some(p) = h.iter().position(|c| *c == e.2) {
                        h.remove(p);
                    }
                }
            }
            "cleanup_unlock" => {
                cleaned.insert((e.2, e.3));
            }
            _ => {}
        }
    }
    let _ = overlaps_seen;
    if !violated {
        let still_open: usize = open.values().map(|v| v.len()).sum();
        if still_open > 0 {
            acc.violation("C20/synchronisation-task-never-ends-after-its-connection-ended", witness("sync_begin without sync_end after every connection was ended and the log was quiet"));
            violated = true;
        }
    }
    if !violated && fresh_ok(&granted, &rooms) {
        acc.count("stack_sync_begins", begins);
        acc.count("stack_cases", 1);
        acc.distinct("stack", format!("limit={} rooms={} begins={} max_open={} cleanup={}", limit, rooms.len(), begins.min(20), max_open, cleaned.len().min(5)));
        let key = format!("stack limit={} rooms={} max_open={} cleanup={} ended_mid_sync={}", limit, rooms.len(), max_open, !cleaned.is_empty(), log.lock().unwrap().iter().any(|v| v.to_string().contains("EndConnection")));
        acc.held(if begins >= 2 { Some(key) } else { None });
    } else if !violated {
        let missing: Vec<String> = rooms.iter().filter(|r| !granted.contains(*r)).map(|r| short(r)).collect();
        acc.violation("C20/room-never-granted-again-after-connections-ended", witness(&format!("a fresh connection on a fresh circuit was not granted {:?} within 60 s although every earlier connection had ended", missing)));
    }
}

fn fresh_ok(granted: &HashSet<Uid>, rooms: &[Uid]) -> bool {
    rooms.iter().all(|r| granted.contains(r))
}
