//! C07 — A room definition accepted from a peer only adds entitled entries.
use crate::peer::{small_config, Identity, Peer};
use crate::props::c10::compare;
use crate::runner::{Acc, CaseFut, Ctx, PropDef};
use crate::snapshot::diff;
use crate::sync::{pull, PullOpts};
use crate::util::{b64, clock_set, clock_step, short, DAY, T0};
use crate::world::{GroupSpec, RightSpec, RoomEdit, RoomHandle, RoomSpec, MODEL};
use discret::verif::database::edge::Edge;
use discret::verif::database::node::Node;
use discret::verif::database::room_node::{RoomNode, UserNode};
use rand::Rng;
use serde_json::{json, Value};

pub static DEF: PropDef = PropDef {
    id: "C07",
    level: "exploration",
    rule: "a victim instance holds a room at version v0 (pulled from its admin); the admin makes an honest change (v1); the definition exported by the admin at v1 is altered by an adversary that is a plain user of the room: a user entry of the room re-attached as admin or as user admin with a reference the adversary signs, a right of one group re-attached to another group, an admin entry replayed from another room of the same admin, a self-signed admin entry, a tampered entry, omissions, duplicates and re-orderings, or honest versions delivered out of order and repeatedly; the candidate goes through verify_room_node + add_room_node exactly like a pulled definition. Oracle: if refused, storage and live room unchanged; if accepted, the decision matrix of the live room (all keys incl. the adversary, all entities, all entry dates +-1 and now) equals the matrix of the model at v0 or v1. non-trivial = candidate containing a legitimate addition and an adversarial element, or an out-of-order honest update; distinct = (transformation, room shape) Histories where the adversary has been admin, or user admin of the first group, for a while: a self-signed admin entry created while it was admin and in force now; a user entry authored after it lost the user-admin role. The decision grid always contains the present and a far-future date. Histories where the adversary is an admin when the victim learns the room and is disabled by the unseen change: a complete new group authored by it afterwards.",
    assumptions: &[
        "the adversary holds its own signing key only; every row it did not author is reused byte for byte",
    ],
    cases: |t| t.pick(200, 3000),
    shards: |t| t.pick(10, 16),
    case_budget_s: |_| 240,
    min_conclusive: |t| t.pick(20, 400),
    run_case,
    finish: None,
    worker_threads: 4,
    tokio_per_case: true,
};

const ROOM_ENT_SHORT: &str = "0.0";
const AUTH_ENT_SHORT: &str = "0.1";
const USER_ENT_SHORT: &str = "0.2";

fn signed_edge(src: [u8; 16], src_entity: &str, label: &str, dest: [u8; 16], cdate: i64, who: &Identity) -> Edge {
    let mut e = Edge {
        src,
        src_entity: src_entity.to_string(),
        label: label.to_string(),
        dest,
        cdate,
        verifying_key: vec![],
        signature: vec![],
    };
    e.sign(&who.signing).unwrap();
    e
}

fn user_node(key: &[u8], date: i64, who: &Identity, rng: &mut rand::rngs::StdRng) -> Node {
    let mut id = [0u8; 16];
    rng.fill(&mut id);
    let mut n = Node {
        id,
        room_id: None,
        cdate: date,
        mdate: date,
        _entity: USER_ENT_SHORT.to_string(),
        _json: Some(format!("{{\"32\":\"{}\",\"33\":true}}", b64(key))),
        _binary: None,
        verifying_key: vec![],
        _signature: vec![],
        _local_id: None,
    };
    n.sign(&who.signing).unwrap();
    n
}

fn clear_local_ids(rn: &mut RoomNode) {
    rn.node._local_id = None;
    for u in &mut rn.admin_nodes {
        u.node._local_id = None;
    }
    for a in &mut rn.auth_nodes {
        a.node._local_id = None;
        for x in a.user_nodes.iter_mut().chain(a.user_admin_nodes.iter_mut()) {
            x.node._local_id = None;
        }
        for x in &mut a.right_nodes {
            x.node._local_id = None;
        }
    }
}

fn run_case<'a>(ctx: &'a Ctx, case: u64, acc: &'a mut Acc) -> CaseFut<'a> {
    Box::pin(async move {
        let mut rng = ctx.rng(case);
        let dir = ctx.case_dir(case);
        let seed = ctx.case_seed(case);
        clock_set(T0);
        clock_step(0);
        let mut t = T0 + 10;
        clock_set(t);
        let a = match Peer::start("A", seed, 0, MODEL, &dir.join("a"), small_config()).await {
            Ok(p) => p,
            Err(e) => {
                acc.inconclusive(e);
                return;
            }
        };
        let v = Peer::start("V", seed, 1, MODEL, &dir.join("v"), small_config()).await.unwrap();
        let m = Identity::new(seed, 50);
        let other = Identity::new(seed, 51);
        let keys = vec![a.id.vkey.clone(), v.id.vkey.clone(), m.vkey.clone(), other.vkey.clone(), Identity::new(seed, 52).vkey];
        let two_groups = rng.gen_bool(0.6);
        let mk_right = |e: &str, own: bool, all: bool| RightSpec { entity: e.to_string(), own, all };
        let mut groups = vec![GroupSpec {
            name: "g0".into(),
            users: vec![(m.vkey.clone(), true), (v.id.vkey.clone(), true)],
            user_admins: if rng.gen_bool(0.5) { vec![(other.vkey.clone(), true)] } else { vec![] },
            rights: vec![mk_right("Person", true, false)],
        }];
        if two_groups {
            groups.push(GroupSpec {
                name: "g1".into(),
                users: vec![(other.vkey.clone(), true)],
                user_admins: vec![],
                rights: vec![mk_right("*", true, true)],
            });
        }
        let spec = RoomSpec { admins: vec![(a.id.vkey.clone(), true)], groups };
        let mut room: RoomHandle = match a.create_room(&spec).await {
            Ok(r) => r,
            Err(e) => {
                acc.inconclusive(e);
                return;
            }
        };
        // a second room of the same admin where the adversary is admin (for cross room replay)
        let spec2 = RoomSpec {
            admins: vec![(a.id.vkey.clone(), true), (m.vkey.clone(), true)],
            groups: vec![GroupSpec { name: "h".into(), users: vec![], user_admins: vec![], rights: vec![mk_right("*", true, true)] }],
        };
        let room2 = a.create_room(&spec2).await.unwrap();
        // in some histories the adversary has been an admin of the room for a while and is not any more
        let mut admin_window: Option<(i64, i64)> = None;
        if rng.gen_bool(0.4) {
            t += 50;
            clock_set(t);
            let from = t;
            if a.edit_room(&mut room, &RoomEdit::Admin(m.vkey.clone(), true)).await.is_ok() {
                t += 500;
                clock_set(t);
                if a.edit_room(&mut room, &RoomEdit::Admin(m.vkey.clone(), false)).await.is_ok() {
                    admin_window = Some((from, t));
                }
            }
        }
        // ... or is still an admin when the victim learns the room, and is disabled by the change the victim has not seen
        let mut admin_until_v1 = false;
        if admin_window.is_none() && rng.gen_bool(0.25) {
            t += 50;
            clock_set(t);
            admin_until_v1 = a.edit_room(&mut room, &RoomEdit::Admin(m.vkey.clone(), true)).await.is_ok();
        }
        // ... or a user admin of the first group for a while
        let mut user_admin_window: Option<(i64, i64)> = None;
        if admin_window.is_none() && !admin_until_v1 && rng.gen_bool(0.4) {
            t += 50;
            clock_set(t);
            let from = t;
            if a.edit_room(&mut room, &RoomEdit::UserAdmin(0, m.vkey.clone(), true)).await.is_ok() {
                t += 500;
                clock_set(t);
                if a.edit_room(&mut room, &RoomEdit::UserAdmin(0, m.vkey.clone(), false)).await.is_ok() {
                    user_admin_window = Some((from, t));
                }
            }
        }
        t += 5;
        clock_set(t);
        let st = pull(&v, &a, room.id, PullOpts::default()).await;
        if let Some(e) = st.error {
            acc.inconclusive(format!("initial pull failed: {}", e));
            return;
        }
        let model_v0 = room.clone();
        // honest change v1 (victim not informed)
        t += if rng.gen_bool(0.5) { 50 } else { DAY };
        clock_set(t);
        let honest = match if admin_until_v1 { 3 } else { rng.gen_range(0..3) } {
            3 => RoomEdit::Admin(m.vkey.clone(), false),
            0 => RoomEdit::User(0, other.vkey.clone(), true),
            1 => RoomEdit::Right(0, mk_right("Pet", true, false)),
            _ => RoomEdit::User(0, m.vkey.clone(), false),
        };
        if let Err(e) = a.edit_room(&mut room, &honest).await {
            acc.inconclusive(format!("honest edit refused: {}", e));
            return;
        }
        let honest2 = RoomEdit::Right(0, mk_right("ns.Thing", true, true));
        let export_v1 = a.db.get_room_node(room.id).await.unwrap().unwrap();
        t += 20;
        clock_set(t);
        let mut room_v2 = room.clone();
        a.edit_room(&mut room_v2, &honest2).await.unwrap();
        let export_v2 = a.db.get_room_node(room.id).await.unwrap().unwrap();
        let export_r2 = a.db.get_room_node(room2.id).await.unwrap().unwrap();
        t += 20;
        clock_set(t);

        // candidate
        let kind = if admin_until_v1 {
            14
        } else if admin_window.is_some() && rng.gen_bool(0.5) {
            12
        } else if user_admin_window.is_some() && rng.gen_bool(0.5) {
            13
        } else {
            rng.gen_range(0..12)
        };
        let mut cand = export_v1.clone();
        let mut expected: Vec<&RoomHandle> = vec![&model_v0, &room];
        let mut sequence: Option<Vec<RoomNode>> = None;
        let name: &str = match kind {
            0 => {
                // a user entry of the room (authored by the admin, naming the adversary) re-attached as admin
                let un = cand.auth_nodes[0].user_nodes.iter().find(|u| u.node._json.as_ref().map(|j| j.contains(&b64(&m.vkey))).unwrap_or(false)).cloned();
                if let Some(un) = un {
                    cand.admin_edges.push(signed_edge(room.id, ROOM_ENT_SHORT, "32", un.node.id, un.node.mdate, &m));
                    cand.admin_nodes.push(un);
                }
                "user-entry-reattached-as-admin"
            }
            1 => {
                let un = cand.auth_nodes[0].user_nodes.iter().find(|u| u.node._json.as_ref().map(|j| j.contains(&b64(&m.vkey))).unwrap_or(false)).cloned();
                if let Some(un) = un {
                    let aid = cand.auth_nodes[0].node.id;
                    cand.auth_nodes[0].user_admin_edges.push(signed_edge(aid, AUTH_ENT_SHORT, "35", un.node.id, un.node.mdate, &m));
                    cand.auth_nodes[0].user_admin_nodes.push(un);
                }
                "user-entry-reattached-as-user-admin"
            }
            2 if two_groups => {
                // the all-rights entry of group 1 re-attached to group 0 (where the adversary is a user)
                let rn = cand.auth_nodes.iter().find(|x| x.node.id == room.groups[1]).map(|x| x.right_nodes[0].clone());
                if let Some(rn) = rn {
                    let g0 = cand.auth_nodes.iter_mut().find(|x| x.node.id == room.groups[0]).unwrap();
                    let aid = g0.node.id;
                    g0.right_edges.push(signed_edge(aid, AUTH_ENT_SHORT, "33", rn.node.id, rn.node.mdate, &m));
                    g0.right_nodes.push(rn);
                }
                "right-entry-reattached-to-another-group"
            }
            3 => {
                // admin entry of the adversary in another room of the same admin, replayed here
                let un = export_r2.admin_nodes.iter().find(|u| u.node._json.as_ref().map(|j| j.contains(&b64(&m.vkey))).unwrap_or(false)).cloned();
                if let Some(un) = un {
                    cand.admin_edges.push(signed_edge(room.id, ROOM_ENT_SHORT, "32", un.node.id, un.node.mdate, &m));
                    cand.admin_nodes.push(un);
                }
                "admin-entry-replayed-from-another-room"
            }
            4 => {
                let n = user_node(&m.vkey, t, &m, &mut rng);
                cand.admin_edges.push(signed_edge(room.id, ROOM_ENT_SHORT, "32", n.id, t, &m));
                cand.admin_nodes.push(UserNode { node: n });
                "self-signed-admin-entry"
            }
            5 => {
                let n = user_node(&m.vkey, t, &m, &mut rng);
                let aid = cand.auth_nodes[0].node.id;
                cand.auth_nodes[0].user_edges.push(signed_edge(aid, AUTH_ENT_SHORT, "34", n.id, t, &m));
                cand.auth_nodes[0].user_nodes.push(UserNode { node: n });
                "self-signed-user-entry"
            }
            6 => {
                // tampered admin-authored entry (signature no longer valid)
                if let Some(u) = cand.auth_nodes[0].user_nodes.first_mut() {
                    u.node._json = Some(format!("{{\"32\":\"{}\",\"33\":true}}", b64(&m.vkey)));
                }
                "tampered-entry"
            }
            7 => {
                // omission of old entries + reordering: legitimate, must give v1 (old entries are kept)
                cand.auth_nodes[0].user_nodes.reverse();
                cand.auth_nodes[0].user_edges.reverse();
                if cand.auth_nodes[0].user_nodes.len() > 1 {
                    let dropped = cand.auth_nodes[0].user_nodes.remove(0);
                    cand.auth_nodes[0].user_edges.retain(|e| e.dest != dropped.node.id);
                }
                "omission-and-reordering"
            }
            8 => {
                // admin entry dated before the room existed, authored by the adversary
                let n = user_node(&m.vkey, T0 - DAY, &m, &mut rng);
                cand.admin_edges.push(signed_edge(room.id, ROOM_ENT_SHORT, "32", n.id, T0 - DAY, &m));
                cand.admin_nodes.push(UserNode { node: n });
                "self-signed-admin-entry-dated-before-the-room"
            }
            9 => {
                // disable the admin with an entry the adversary signs
                let mut n = user_node(&a.id.vkey, t, &m, &mut rng);
                n._json = Some(format!("{{\"32\":\"{}\",\"33\":false}}", b64(&a.id.vkey)));
                n.sign(&m.signing).unwrap();
                cand.admin_edges.push(signed_edge(room.id, ROOM_ENT_SHORT, "32", n.id, t, &m));
                cand.admin_nodes.push(UserNode { node: n });
                "self-signed-entry-disabling-the-admin"
            }
            12 => {
                // a former admin signs a new admin entry for itself: created (cdate) while it was admin, in force (mdate) now
                let (from, to) = admin_window.unwrap();
                let mut n = user_node(&m.vkey, t, &m, &mut rng);
                n.cdate = from + (to - from) / 2;
                n.sign(&m.signing).unwrap();
                let edge_date = if rng.gen_bool(0.5) { t } else { n.cdate };
                cand.admin_edges.push(signed_edge(room.id, ROOM_ENT_SHORT, "32", n.id, edge_date, &m));
                cand.admin_nodes.push(UserNode { node: n });
                "self-signed-admin-entry-by-a-former-admin-created-while-it-was-admin"
            }
            14 => {
                // the candidate carries the entry that disables the adversary as admin (unseen by the victim) and a new
                // group that the adversary authors after that date, granting every right to itself
                let template = cand.auth_nodes[0].clone();
                let mut g = template.clone();
                let mut gid = [0u8; 16];
                rng.fill(&mut gid);
                g.node.id = gid;
                g.node.cdate = t;
                g.node.mdate = t;
                g.node.sign(&m.signing).unwrap();
                g.last_modified = t;
                g.need_update = true;
                g.user_admin_edges.clear();
                g.user_admin_nodes.clear();
                g.user_edges.clear();
                g.user_nodes.clear();
                g.right_edges.clear();
                g.right_nodes.clear();
                if let Some(rn) = template.right_nodes.first() {
                    let mut r = rn.clone();
                    let mut rid = [0u8; 16];
                    rng.fill(&mut rid);
                    r.node.id = rid;
                    r.node.cdate = t;
                    r.node.mdate = t;
                    // same fields as the template, for every entity, own and all rows
                    if let Some(j) = &r.node._json {
                        if let Ok(Value::Object(mut o)) = serde_json::from_str::<Value>(j) {
                            for (_, v) in o.iter_mut() {
                                if v.is_string() {
                                    *v = json!("*");
                                } else if v.is_boolean() {
                                    *v = json!(true);
                                }
                            }
                            r.node._json = Some(Value::Object(o).to_string());
                        }
                    }
                    r.node.sign(&m.signing).unwrap();
                    g.right_edges.push(signed_edge(gid, AUTH_ENT_SHORT, "33", rid, t, &m));
                    g.right_nodes.push(r);
                }
                let un = user_node(&m.vkey, t, &m, &mut rng);
                g.user_edges.push(signed_edge(gid, AUTH_ENT_SHORT, "34", un.id, t, &m));
                g.user_nodes.push(UserNode { node: un });
                cand.auth_edges.push(signed_edge(room.id, ROOM_ENT_SHORT, "33", gid, t, &m));
                cand.auth_nodes.push(g);
                "new-group-authored-by-an-admin-whose-disabling-entry-is-in-the-same-definition"
            }
            13 => {
                // a former user admin of the group adds a user (a key that is in no group) with an entry dated now
                let stranger = Identity::new(seed, 52);
                let n = user_node(&stranger.vkey, t, &m, &mut rng);
                let aid = cand.auth_nodes[0].node.id;
                cand.auth_nodes[0].user_edges.push(signed_edge(aid, AUTH_ENT_SHORT, "34", n.id, t, &m));
                cand.auth_nodes[0].user_nodes.push(UserNode { node: n });
                "user-entry-by-a-former-user-admin"
            }
            _ => {
                // honest versions out of order and repeated
                let mut seq = vec![export_v1.clone(), export_v2.clone(), export_v1.clone(), export_v2.clone()];
                if rng.gen_bool(0.5) {
                    seq.swap(0, 1);
                }
                sequence = Some(seq);
                expected = vec![&room_v2];
                "honest-versions-out-of-order"
            }
        };
        clear_local_ids(&mut cand);
        let candidates = match sequence {
            Some(mut s) => {
                for c in &mut s {
                    clear_local_ids(c);
                }
                s
            }
            None => vec![cand],
        };
        let witness = |why: Value| json!({"transformation": name, "why": why, "honest_change": honest.describe(), "keys": {"admin": short(&keys[0]), "victim": short(&keys[1]), "adversary": short(&keys[2]), "other": short(&keys[3])}, "two_groups": two_groups});
        let mut violated = false;
        let mut any_accepted = false;
        for cand in candidates {
            let before = v.snapshot().await;
            let verified = v.verify.verify_room_node(cand).await;
            let res = match verified {
                Ok(rn) => v.db.add_room_node(rn).await.map_err(|e| e.to_string()),
                Err(e) => Err(format!("signature check: {}", e)),
            };
            v.barrier().await;
            let after = v.snapshot().await;
            acc.count(&format!("candidate/{}/{}", name, if res.is_ok() { "accepted" } else { "refused" }), 1);
            match res {
                Err(_) => {
                    // R4 refused => nothing changed
                    let ch = diff(&before, &after);
                    if !ch.is_empty() {
                        acc.violation(
                            format!("C07/refused-candidate-changed-storage/{}", name),
                            witness(json!({"changes": ch.iter().take(4).map(|c| c.describe()).collect::<Vec<_>>()})),
                        );
                        violated = true;
                        break;
                    }
                    if sequence_is_honest(name) {
                        // an honest version refused is an availability matter, not decided here
                        acc.count("honest_version_refused", 1);
                    }
                }
                Ok(_) => any_accepted = true,
            }
        }
        if violated {
            return;
        }
        // decisions after the candidate(s): v0 or v1 (v2 for the honest sequence), nothing else
        let mut ok = false;
        let mut last_diff = Vec::new();
        let mut candidates_models: Vec<&RoomHandle> = expected.clone();
        if sequence_is_honest(name) {
            candidates_models.push(&room);
            candidates_models.push(&model_v0);
        }
        for exp in candidates_models {
            match compare(&v, exp, &keys).await {
                Ok(n) => {
                    acc.count("decision_cells_compared", n);
                    ok = true;
                    break;
                }
                Err(d) => last_diff = d,
            }
        }
        if !ok {
            acc.violation(
                format!("C07/accepted-definition-changes-decisions/{}", name),
                witness(json!({"cells": last_diff, "accepted": any_accepted})),
            );
            return;
        }
        let adversarial = !matches!(name, "omission-and-reordering" | "honest-versions-out-of-order");
        let key = if adversarial || name == "honest-versions-out-of-order" {
            Some(format!("{}/{}/{}", name, two_groups, honest.kind()))
        } else {
            None
        };
        acc.held(key);
        acc.sample(json!({"transformation": name, "accepted": any_accepted, "honest_change": honest.describe()}));
    })
}

fn sequence_is_honest(name: &str) -> bool {
    name == "honest-versions-out-of-order"
}
