//! C01 — Local writes are applied only with the room's rights at that time.
use crate::peer::{small_config, Peer};
use crate::rights::{Right, RoomModel};
use crate::runner::{Acc, CaseFut, Ctx, PropDef};
use crate::snapshot::{diff, Change, Snapshot};
use crate::sync::{pull, PullOpts};
use crate::util::{b64, clock_set, clock_step, short, T0};
use crate::world::{GroupSpec, RightSpec, RoomEdit, RoomHandle, RoomSpec, MODEL};
use discret::verif::database::node::Node;
use discret::verif::security::Uid;
use discret::{Parameters, ParametersAdd};
use rand::rngs::StdRng;
use rand::Rng;
use serde_json::{json, Value};

pub static DEF: PropDef = PropDef {
    id: "C01",
    level: "exploration",
    rule: "random room-definition histories (1-2 groups; admins, user admins, users enabled / disabled / re-enabled; per-entity and wildcard rights replaced over time, including all-rows without own-rows) on two rooms shared by three real instances (one identity each), interleaved with API operations by a random caller: create, update own / foreign row, move between the rooms, nested sub-entities with inherited or explicit room, reference set / add / clear, node deletion, reference deletion (existing or not), room update by admin / user admin / user / outsider. Oracle: snapshot before/after every call on the caller + independent rights model. non-trivial = history with accepted and refused operations, a foreign-row operation and at least two definition dates; distinct = canonical (operation kind, verdict) sequence After every accepted room mutation the next calls are biased towards moves, updates and deletions; every case ends with a directed tail: an admin withdraws a member's right (or membership) in the room of one of its own rows, then that member moves, updates and deletes the row.",
    assumptions: &[
        "room definitions and rows are replicated to the other instances after every accepted call by directed pulls, so that every caller validates against the same definition the model holds",
        "entity short names of the workload model: 0=Person 1=Pet 2.0=ns.Thing, 0.x = system entities",
    ],
    cases: |t| t.pick(150, 3000),
    shards: |t| t.pick(12, 16),
    case_budget_s: |_| 300,
    min_conclusive: |t| t.pick(20, 500),
    run_case,
    finish: None,
    worker_threads: 4,
    tokio_per_case: true,
};

pub fn entity_name(short_name: &str) -> Option<&'static str> {
    match short_name {
        "0" => Some("Person"),
        "1" => Some("Pet"),
        "2.0" => Some("ns.Thing"),
        _ => None,
    }
}
pub fn is_auth_entity(short_name: &str) -> bool {
    matches!(short_name, "0.0" | "0.1" | "0.2" | "0.3")
}

pub fn rand_right(rng: &mut StdRng, entity: &str) -> RightSpec {
    let (own, all) = match rng.gen_range(0..6) {
        0 => (false, false),
        1 | 2 => (true, false),
        3 | 4 => (true, true),
        _ => (false, true),
    };
    RightSpec {
        entity: entity.to_string(),
        own,
        all,
    }
}

fn rand_entity(rng: &mut StdRng) -> &'static str {
    ["Person", "Pet", "ns.Thing", "*"][rng.gen_range(0..4)]
}

pub struct World {
    pub peers: Vec<Peer>,
    pub rooms: Vec<RoomHandle>,
    pub t: i64,
    /// rows known to exist: (id, entity name)
    pub rows: Vec<(Uid, &'static str)>,
    pub counter: u64,
}

impl World {
    pub fn tick(&mut self, ms: i64) {
        self.t += ms;
        clock_set(self.t);
    }
    fn name(&mut self) -> String {
        self.counter += 1;
        format!("v{}", self.counter)
    }
    /// replicate both rooms (definition and rows) from `from` to every other peer, and back, so
    /// that every instance holds the same definition and the same rows
    pub async fn replicate(&self, from: usize) -> Result<(), String> {
        for r in &self.rooms {
            for i in 0..self.peers.len() {
                if i != from {
                    let st = pull(&self.peers[i], &self.peers[from], r.id, PullOpts::default()).await;
                    if let Some(e) = st.error {
                        return Err(format!("replication pull failed: {}", e));
                    }
                }
            }
        }
        Ok(())
    }
}

fn room_of<'a>(w: &'a World, id: &Uid) -> Option<&'a RoomModel> {
    w.rooms.iter().find(|r| &r.id == id).map(|r| &r.model)
}

/// R1: every changed row of a room is covered by the caller's rights at the operation date
fn check_changes(
    w: &World,
    caller: &[u8],
    t: i64,
    changes: &[Change],
    before: &Snapshot,
    is_room_mutation: bool,
) -> Option<(String, Value)> {
    let need = |node_room: Option<Uid>, ent: &str, right: Right| -> Option<bool> {
        let room = node_room?;
        let model = room_of(w, &room)?;
        let name = entity_name(ent)?;
        Some(model.can(caller, name, t, right))
    };
    let right_for = |author: &[u8]| if author == caller { Right::Own } else { Right::All };
    let src_node = |s: &Snapshot, id: &Uid| -> Option<Node> {
        s.nodes.iter().find(|(k, _)| &k.0 == id).map(|(_, n)| n.clone())
    };
    for c in changes {
        match c {
            Change::NodeAdded(n) => {
                if is_auth_entity(&n._entity) {
                    if !is_room_mutation {
                        return Some(("authorisation-row-changed-outside-room-mutation".into(), c.describe()));
                    }
                    continue;
                }
                if let Some(false) = need(n.room_id, &n._entity, Right::Own) {
                    return Some(("row-created-without-own-right".into(), c.describe()));
                }
            }
            Change::NodeChanged(old, new) => {
                if is_auth_entity(&old._entity) {
                    if !is_room_mutation {
                        return Some(("authorisation-row-changed-outside-room-mutation".into(), c.describe()));
                    }
                    continue;
                }
                let right = right_for(&old.verifying_key);
                let which = if right == Right::Own { "own-row" } else { "foreign-row" };
                if old.room_id != new.room_id {
                    if let Some(false) = need(old.room_id, &old._entity, right) {
                        return Some((format!("row-moved-out-of-room-without-right/{}", which), c.describe()));
                    }
                    if let Some(false) = need(new.room_id, &new._entity, right) {
                        return Some((format!("row-moved-into-room-without-right/{}", which), c.describe()));
                    }
                } else if let Some(false) = need(new.room_id, &new._entity, right) {
                    return Some((format!("row-changed-without-right/{}", which), c.describe()));
                }
            }
            Change::NodeRemoved(n) => {
                if is_auth_entity(&n._entity) {
                    return Some(("authorisation-row-deleted".into(), c.describe()));
                }
                let right = right_for(&n.verifying_key);
                let which = if right == Right::Own { "own-row" } else { "foreign-row" };
                if let Some(false) = need(n.room_id, &n._entity, right) {
                    return Some((format!("row-deleted-without-right/{}", which), c.describe()));
                }
            }
            Change::EdgeAdded(e) | Change::EdgeRemoved(e) | Change::EdgeChanged(e, _) => {
                if is_auth_entity(&e.src_entity) {
                    if !is_room_mutation {
                        return Some(("authorisation-reference-changed-outside-room-mutation".into(), c.describe()));
                    }
                    continue;
                }
                // a reference that disappears because its target row is deleted by the same call is a
                // consequence of that (checked) deletion: a reference to a missing row is not observable
                if let Change::EdgeRemoved(_) = c {
                    let dest_deleted = changes.iter().any(|x| matches!(x, Change::NodeRemoved(n) if n.id == e.dest));
                    if dest_deleted {
                        continue;
                    }
                }
                // attributed to the source row as it was before the call (or as created by the call)
                let src = src_node(before, &e.src);
                if let Some(src) = src {
                    let right = right_for(&src.verifying_key);
                    let which = if right == Right::Own { "own-row" } else { "foreign-row" };
                    // the row may have been deleted by the same call: then the deletion rule applies
                    if let Some(false) = need(src.room_id, &src._entity, right) {
                        let kind = match c {
                            Change::EdgeAdded(_) => "added",
                            Change::EdgeRemoved(_) => "removed",
                            _ => "changed",
                        };
                        return Some((format!("reference-{}-without-right-on-source-row/{}", kind, which), c.describe()));
                    }
                }
            }
            _ => {}
        }
    }
    None
}

#[derive(Debug, Clone)]
pub enum Call {
    Create { room: usize, ent: &'static str },
    Update { row: usize },
    Move { row: usize, to: usize },
    Nested { room: usize, sub_room: Option<usize> },
    NestedUpdate { row: usize, pet: usize },
    SetPet { row: usize, pet: usize },
    AddParent { row: usize, parent: usize },
    ClearPet { row: usize },
    ClearParents { row: usize },
    DeleteNode { row: usize },
    DeleteRef { row: usize, parent: usize },
    RoomEdit { room: usize, edit: RoomEdit },
    NewRoom,
}
impl Call {
    pub fn kind(&self) -> &'static str {
        match self {
            Call::Create { .. } => "create",
            Call::Update { .. } => "update",
            Call::Move { .. } => "move",
            Call::Nested { .. } => "nested-create",
            Call::NestedUpdate { .. } => "nested-update",
            Call::SetPet { .. } => "set-reference",
            Call::AddParent { .. } => "add-reference",
            Call::ClearPet { .. } | Call::ClearParents { .. } => "clear-references",
            Call::DeleteNode { .. } => "delete-node",
            Call::DeleteRef { .. } => "delete-reference",
            Call::RoomEdit { .. } => "room-update",
            Call::NewRoom => "room-create",
        }
    }
}

pub fn pick_row(w: &World, ent: &str, n: usize) -> Option<Uid> {
    let v: Vec<Uid> = w.rows.iter().filter(|r| r.1 == ent).map(|r| r.0).collect();
    if v.is_empty() {
        None
    } else {
        Some(v[n % v.len()])
    }
}

pub async fn perform(w: &mut World, caller: usize, call: &Call) -> Result<Vec<(Uid, &'static str)>, String> {
    let peer = &w.peers[caller];
    let mut created = Vec::new();
    let id_of = |res: &str, ent: &str| -> Option<Uid> {
        let v: Value = serde_json::from_str(res).ok()?;
        let s = v.get(ent)?.get("id")?.as_str()?;
        crate::util::unb64(s).try_into().ok()
    };
    match call {
        Call::Create { room, ent } => {
            let field = if *ent == "ns.Thing" { "label" } else { "name" };
            let mut p = Parameters::new();
            p.add("room", w.rooms[*room].id64()).unwrap();
            p.add("v", format!("c{}", w.counter)).unwrap();
            let r = peer
                .mutate(&format!("mutate {{ {}{{ room_id:$room {}:$v }} }}", ent, field), Some(p))
                .await?;
            if let Some(id) = id_of(&r, ent) {
                created.push((id, *ent));
            }
        }
        Call::Update { row } => {
            let (id, ent) = w.rows[*row % w.rows.len().max(1)];
            let field = if ent == "ns.Thing" { "label" } else { "name" };
            let mut p = Parameters::new();
            p.add("id", b64(&id)).unwrap();
            p.add("v", format!("u{}", w.counter)).unwrap();
            peer.mutate(&format!("mutate {{ {}{{ id:$id {}:$v }} }}", ent, field), Some(p))
                .await?;
        }
        Call::Move { row, to } => {
            let (id, ent) = w.rows[*row % w.rows.len().max(1)];
            let field = if ent == "ns.Thing" { "label" } else { "name" };
            let mut p = Parameters::new();
            p.add("id", b64(&id)).unwrap();
            p.add("room", w.rooms[*to].id64()).unwrap();
            p.add("v", format!("m{}", w.counter)).unwrap();
            peer.mutate(
                &format!("mutate {{ {}{{ id:$id room_id:$room {}:$v }} }}", ent, field),
                Some(p),
            )
            .await?;
        }
        Call::Nested { room, sub_room } => {
            let mut p = Parameters::new();
            p.add("room", w.rooms[*room].id64()).unwrap();
            p.add("v", format!("n{}", w.counter)).unwrap();
            let text = match sub_room {
                Some(sr) => {
                    p.add("sroom", w.rooms[*sr].id64()).unwrap();
                    "mutate { Person{ room_id:$room name:$v pet:{ room_id:$sroom name:$v } parents:[{name:$v}] } }"
                }
                None => "mutate { Person{ room_id:$room name:$v pet:{ name:$v } parents:[{name:$v}] } }",
            };
            let r = peer.mutate_raw(text, Some(p)).await.map_err(|e| e.to_string())?;
            let e = &r.mutate_entities[0];
            created.push((e.node_to_mutate.id, "Person"));
            if let Some(v) = e.sub_nodes.get("pet") {
                created.push((v[0].node_to_mutate.id, "Pet"));
            }
            if let Some(v) = e.sub_nodes.get("parents") {
                created.push((v[0].node_to_mutate.id, "Person"));
            }
        }
        Call::NestedUpdate { row, pet } => {
            // update of a sub entity through its parent, the parent itself unchanged
            let (Some(person), Some(pet)) = (pick_row(w, "Person", *row), pick_row(w, "Pet", *pet)) else {
                return Err("no row".into());
            };
            // make sure the reference exists first (own call, checked like any other)
            let mut p = Parameters::new();
            p.add("id", b64(&person)).unwrap();
            p.add("pet", b64(&pet)).unwrap();
            p.add("v", format!("s{}", w.counter)).unwrap();
            peer.mutate("mutate { Person{ id:$id pet:{ id:$pet name:$v } } }", Some(p))
                .await?;
        }
        Call::SetPet { row, pet } => {
            let (Some(person), Some(pet)) = (pick_row(w, "Person", *row), pick_row(w, "Pet", *pet)) else {
                return Err("no row".into());
            };
            let mut p = Parameters::new();
            p.add("id", b64(&person)).unwrap();
            p.add("pet", b64(&pet)).unwrap();
            peer.mutate("mutate { Person{ id:$id pet:{id:$pet} } }", Some(p)).await?;
        }
        Call::AddParent { row, parent } => {
            let (Some(person), Some(parent)) = (pick_row(w, "Person", *row), pick_row(w, "Person", *parent)) else {
                return Err("no row".into());
            };
            let mut p = Parameters::new();
            p.add("id", b64(&person)).unwrap();
            p.add("parent", b64(&parent)).unwrap();
            peer.mutate("mutate { Person{ id:$id parents:[{id:$parent}] } }", Some(p))
                .await?;
        }
        Call::ClearPet { row } => {
            let Some(person) = pick_row(w, "Person", *row) else { return Err("no row".into()) };
            let mut p = Parameters::new();
            p.add("id", b64(&person)).unwrap();
            peer.mutate("mutate { Person{ id:$id pet:null } }", Some(p)).await?;
        }
        Call::ClearParents { row } => {
            let Some(person) = pick_row(w, "Person", *row) else { return Err("no row".into()) };
            let mut p = Parameters::new();
            p.add("id", b64(&person)).unwrap();
            peer.mutate("mutate { Person{ id:$id parents:null } }", Some(p)).await?;
        }
        Call::DeleteNode { row } => {
            let (id, ent) = w.rows[*row % w.rows.len().max(1)];
            let mut p = Parameters::new();
            p.add("id", b64(&id)).unwrap();
            peer.delete(&format!("delete {{ {}{{ $id }} }}", ent), Some(p)).await?;
        }
        Call::DeleteRef { row, parent } => {
            let (Some(person), Some(parent)) = (pick_row(w, "Person", *row), pick_row(w, "Person", *parent)) else {
                return Err("no row".into());
            };
            let mut p = Parameters::new();
            p.add("id", b64(&person)).unwrap();
            p.add("parent", b64(&parent)).unwrap();
            peer.delete("delete { Person{ $id parents[$parent] } }", Some(p)).await?;
        }
        Call::RoomEdit { room, edit } => {
            let mut handle = w.rooms[*room].clone();
            peer.edit_room(&mut handle, edit).await?;
            w.rooms[*room] = handle;
        }
        Call::NewRoom => {
            let spec = RoomSpec {
                admins: vec![(peer.id.vkey.clone(), true)],
                groups: vec![GroupSpec {
                    name: "g".into(),
                    users: vec![],
                    user_admins: vec![],
                    rights: vec![RightSpec { entity: "*".into(), own: true, all: false }],
                }],
            };
            let h = peer.create_room(&spec).await?;
            // not added to the shared rooms: only its creator knows it
            let _ = h;
        }
    }
    Ok(created)
}

/// is the caller entitled to the room edit per the model at date t
fn entitled(model: &RoomModel, room: &RoomHandle, caller: &[u8], t: i64, edit: &RoomEdit) -> bool {
    let admin = model.is_admin(caller, t);
    match edit {
        RoomEdit::User(g, _, _) => {
            admin
                || model
                    .groups
                    .get(&room.gid(*g))
                    .map(|g| g.is_user_admin(caller, t))
                    .unwrap_or(false)
        }
        RoomEdit::NewGroup(gs) => {
            // a new group with users needs an admin (nobody can be user admin of it before it exists,
            // unless the same mutation names the caller as its user admin)
            admin
                || (gs.rights.is_empty()
                    && !gs.users.is_empty()
                    && gs.user_admins.iter().any(|(k, e)| k == caller && *e)
                    && false)
        }
        _ => admin,
    }
}

fn run_case<'a>(ctx: &'a Ctx, case: u64, acc: &'a mut Acc) -> CaseFut<'a> {
    Box::pin(async move {
        let mut rng = ctx.rng(case);
        let dir = ctx.case_dir(case);
        clock_set(T0);
        clock_step(0);
        let mut peers = Vec::new();
        for i in 0..3 {
            match Peer::start(&format!("p{}", i), ctx.case_seed(case), i, MODEL, &dir.join(format!("p{}", i)), small_config()).await {
                Ok(p) => peers.push(p),
                Err(e) => {
                    acc.inconclusive(e);
                    return;
                }
            }
        }
        let keys: Vec<Vec<u8>> = peers.iter().map(|p| p.id.vkey.clone()).collect();
        let outsider = crate::peer::Identity::new(ctx.case_seed(case), 99).vkey;
        let mut w = World { peers, rooms: Vec::new(), t: T0, rows: Vec::new(), counter: 0 };
        // two rooms created by peer 0 with random initial definitions
        for _ in 0..2 {
            let n_groups = rng.gen_range(1..=2);
            let mut groups = Vec::new();
            for g in 0..n_groups {
                let mut users = Vec::new();
                for k in &keys {
                    if rng.gen_bool(0.65) {
                        users.push((k.clone(), rng.gen_bool(0.85)));
                    }
                }
                let mut rights = Vec::new();
                for e in ["Person", "Pet", "ns.Thing", "*"] {
                    if rng.gen_bool(0.6) {
                        rights.push(rand_right(&mut rng, e));
                    }
                }
                let mut user_admins = Vec::new();
                if rng.gen_bool(0.4) {
                    user_admins.push((keys[rng.gen_range(1..3)].clone(), true));
                }
                groups.push(GroupSpec { name: format!("g{}", g), users, user_admins, rights });
            }
            let mut admins = vec![(keys[0].clone(), true)];
            if rng.gen_bool(0.25) {
                admins.push((keys[1].clone(), true));
            }
            w.tick(3);
            match w.peers[0].create_room(&RoomSpec { admins, groups }).await {
                Ok(h) => w.rooms.push(h),
                Err(e) => {
                    acc.inconclusive(format!("room creation failed: {}", e));
                    return;
                }
            }
        }
        w.tick(2);
        if let Err(e) = w.replicate(0).await {
            acc.inconclusive(e);
            return;
        }
        let n_calls = rng.gen_range(12..ctx.tier.pick(26, 44));
        let mut log: Vec<Value> = Vec::new();
        let mut verdicts: Vec<String> = Vec::new();
        let mut accepted = 0;
        let mut refused = 0;
        let mut foreign_ops = 0;
        let mut violated = false;
        let mut boost = 0;
        // directed tail: once the random calls are over, an admin withdraws what a member had in the room of one of
        // its own rows (its rights on the entity, or its membership), then that member tries to move, update and
        // delete the row written while it still had the right. The same oracle decides.
        let mut forced: std::collections::VecDeque<(usize, Call)> = std::collections::VecDeque::new();
        let mut step = 0;
        let mut directed_done = false;
        loop {
            if step >= n_calls && forced.is_empty() {
                if directed_done {
                    break;
                }
                directed_done = true;
                let c = rng.gen_range(1..3);
                let snap = w.peers[0].snapshot().await;
                let mut target: Option<(usize, usize, &'static str)> = None;
                for (idx, (id, ent)) in w.rows.iter().enumerate() {
                    if let Some(n) = snap.nodes.iter().find(|(k, _)| k.0 == *id).map(|(_, n)| n) {
                        if n.verifying_key == keys[c] {
                            if let Some(x) = w.rooms.iter().position(|r| Some(r.id) == n.room_id) {
                                if x < 2 {
                                    target = Some((idx, x, *ent));
                                }
                            }
                        }
                    }
                }
                let Some((idx, x, ent)) = target else { break };
                let n_groups = w.rooms[x].groups.len();
                let by_right = rng.gen_bool(0.5);
                for g in 0..n_groups {
                    if by_right {
                        forced.push_back((0, Call::RoomEdit { room: x, edit: RoomEdit::Right(g, RightSpec { entity: ent.to_string(), own: false, all: false }) }));
                    } else {
                        forced.push_back((0, Call::RoomEdit { room: x, edit: RoomEdit::User(g, keys[c].clone(), false) }));
                    }
                }
                let mut tail = vec![Call::Move { row: idx, to: 1 - x }, Call::Update { row: idx }, Call::DeleteNode { row: idx }];
                use rand::seq::SliceRandom;
                tail.shuffle(&mut rng);
                for t in tail {
                    forced.push_back((c, t));
                }
                acc.count("directed_tails", 1);
                continue;
            }
            step += 1;
            w.tick(rng.gen_range(1..4000));
            w.counter += 1;
            let forced_call = forced.pop_front();
            let caller = match &forced_call {
                Some((c, _)) => *c,
                None => rng.gen_range(0..3),
            };
            let nrows = w.rows.len();
            let mut k = rng.gen_range(0..100);
            // right after an accepted room mutation the rows written before it are the interesting targets:
            // moves, updates, deletions and reference changes are drawn more often for a few calls
            if boost > 0 && nrows > 0 {
                boost -= 1;
                k = [35, 35, 35, 20, 72, 60, 55][rng.gen_range(0..7)];
            }
            let r = rng.gen_range(0..1000);
            let r2 = rng.gen_range(0..1000);
            let room = rng.gen_range(0..2);
            let call = if nrows == 0 || k < 16 {
                Call::Create { room, ent: ["Person", "Pet", "ns.Thing"][rng.gen_range(0..3)] }
            } else if k < 30 {
                Call::Update { row: r }
            } else if k < 40 {
                Call::Move { row: r, to: room }
            } else if k < 46 {
                Call::Nested { room, sub_room: if rng.gen_bool(0.5) { Some(1 - room) } else { None } }
            } else if k < 52 {
                Call::NestedUpdate { row: r, pet: r2 }
            } else if k < 58 {
                Call::SetPet { row: r, pet: r2 }
            } else if k < 64 {
                Call::AddParent { row: r, parent: r2 }
            } else if k < 67 {
                Call::ClearPet { row: r }
            } else if k < 70 {
                Call::ClearParents { row: r }
            } else if k < 77 {
                Call::DeleteNode { row: r }
            } else if k < 83 {
                Call::DeleteRef { row: r, parent: r2 }
            } else if k < 98 {
                let n_groups = w.rooms[room].groups.len();
                let g = rng.gen_range(0..n_groups);
                let key = if rng.gen_bool(0.15) { outsider.clone() } else { keys[rng.gen_range(0..3)].clone() };
                let edit = match rng.gen_range(0..10) {
                    0 => RoomEdit::Admin(key, rng.gen_bool(0.7)),
                    1..=4 => RoomEdit::User(g, key, rng.gen_bool(0.6)),
                    5 => RoomEdit::UserAdmin(g, key, rng.gen_bool(0.7)),
                    6..=8 => {
                        let e = rand_entity(&mut rng);
                        RoomEdit::Right(g, rand_right(&mut rng, e))
                    }
                    // (a new group created together with users authored by an admin is refused by peers
                    // that import it: decided by C12/C10, avoided here)
                    _ => RoomEdit::NewGroup(GroupSpec {
                        name: "x".into(),
                        users: vec![],
                        user_admins: vec![],
                        rights: vec![rand_right(&mut rng, "*")],
                    }),
                };
                Call::RoomEdit { room, edit }
            } else {
                Call::NewRoom
            };
            let call = match forced_call {
                Some((_, c)) => c,
                None => call,
            };
            // the model before the call decides
            let model_before: Vec<RoomModel> = w.rooms.iter().map(|r| r.model.clone()).collect();
            let caller_key = keys[caller].clone();
            let before = w.peers[caller].snapshot().await;
            let t = w.t;
            let res = perform(&mut w, caller, &call).await;
            if matches!(call, Call::RoomEdit { .. }) && res.is_ok() {
                boost = 3;
            }
            w.peers[caller].barrier().await;
            let after = w.peers[caller].snapshot().await;
            let changes = diff(&before, &after);
            acc.count(&format!("call/{}", call.kind()), 1);
            acc.count("rows_changed_checked", changes.len() as u64);
            let is_room_mut = matches!(call, Call::RoomEdit { .. } | Call::NewRoom);
            // foreign row operation?
            if let Call::Update { row } | Call::DeleteNode { row } | Call::Move { row, .. } = &call {
                if nrows > 0 {
                    let id = w.rows[*row % nrows].0;
                    if before.nodes.iter().any(|(k, n)| k.0 == id && n.verifying_key != caller_key) {
                        foreign_ops += 1;
                    }
                }
            }
            let entry = json!({"t": t - T0, "caller": caller, "call": format!("{:?}", call).chars().take(160).collect::<String>(), "result": match &res { Ok(_) => "accepted".to_string(), Err(e) => format!("refused: {}", e.chars().take(70).collect::<String>()) }, "rows_changed": changes.len()});
            log.push(entry);
            let witness = |why: Value, log: &Vec<Value>, w: &World| json!({"why": why, "rooms": w.rooms.iter().map(|r| json!({"id": r.id64(), "model": r.model.describe()})).collect::<Vec<_>>(), "keys": keys.iter().map(|k| short(k)).collect::<Vec<_>>(), "history": log});
            match &res {
                Err(_) => {
                    refused += 1;
                    verdicts.push(format!("{}-", call.kind()));
                    // R2: a refused call leaves the database unchanged
                    let log_changed = before.daily != after.daily;
                    if !changes.is_empty() || log_changed || before.config != after.config {
                        acc.violation(
                            format!("C01/refused-call-changed-the-database/{}", call.kind()),
                            witness(json!({"changes": changes.iter().take(5).map(|c| c.describe()).collect::<Vec<_>>(), "daily_log_changed": log_changed}), &log, &w),
                        );
                        violated = true;
                        break;
                    }
                }
                Ok(created) => {
                    accepted += 1;
                    verdicts.push(format!("{}+", call.kind()));
                    // evaluate with the model as it was before the call
                    let saved: Vec<RoomModel> = w.rooms.iter().map(|r| r.model.clone()).collect();
                    for (i, m) in model_before.iter().enumerate() {
                        w.rooms[i].model = m.clone();
                    }
                    let bad = check_changes(&w, &caller_key, t, &changes, &before, is_room_mut);
                    let mut bad_edit = None;
                    if let Call::RoomEdit { room, edit } = &call {
                        if !entitled(&model_before[*room], &w.rooms[*room], &caller_key, t, edit) {
                            bad_edit = Some(format!("room-definition-changed-by-unentitled-caller/{}", edit.kind()));
                        }
                    }
                    for (i, m) in saved.into_iter().enumerate() {
                        w.rooms[i].model = m;
                    }
                    if let Some((why, c)) = bad {
                        acc.violation(
                            format!("C01/{}/{}", why, call.kind()),
                            witness(json!({"change": c}), &log, &w),
                        );
                        violated = true;
                        break;
                    }
                    if let Some(why) = bad_edit {
                        acc.violation(format!("C01/{}", why), witness(json!({}), &log, &w));
                        violated = true;
                        break;
                    }
                    for c in created {
                        w.rows.push(*c);
                    }
                    // R4: the live room equals the model after an accepted room mutation
                    if let Call::RoomEdit { room, .. } = &call {
                        if let Some(live) = w.peers[caller].room(w.rooms[*room].id).await {
                            let m = &w.rooms[*room].model;
                            let mut all_keys = keys.clone();
                            all_keys.push(outsider.clone());
                            let ents: Vec<String> = ["Person", "Pet", "ns.Thing"].iter().map(|s| s.to_string()).collect();
                            let dates = vec![t - 1, t, t + 1];
                            let mut a = crate::rights::matrix_of_room(&live, &all_keys, &ents, &dates);
                            let mut b = crate::rights::matrix_of_model(m, &all_keys, &ents, &dates);
                            a.sort();
                            b.sort();
                            acc.count("decision_cells_compared", a.len() as u64);
                            if a != b {
                                let d: Vec<String> = a.iter().filter(|x| !b.contains(x)).take(6).cloned().collect();
                                acc.violation(
                                    "C01/live-room-differs-from-model-after-accepted-room-mutation",
                                    witness(json!({"live_only": d}), &log, &w),
                                );
                                violated = true;
                                break;
                            }
                        }
                    }
                    // replicate so that everyone holds the same definition and rows
                    w.tick(1);
                    if let Err(e) = w.replicate(caller).await {
                        acc.inconclusive(e);
                        return;
                    }
                }
            }
        }
        if violated {
            return;
        }
        let dates: std::collections::BTreeSet<i64> = w.rooms.iter().flat_map(|r| r.model.all_dates()).collect();
        let nontrivial = accepted > 0 && refused > 0 && foreign_ops > 0 && dates.len() >= 2;
        let key = if nontrivial {
            let mut h = blake3::Hasher::new();
            for v in &verdicts {
                h.update(v.as_bytes());
            }
            Some(hex::encode(&h.finalize().as_bytes()[0..8]))
        } else {
            None
        };
        for v in &verdicts {
            acc.distinct("kind_verdict", v.clone());
        }
        acc.held(key);
        acc.sample(json!({"history": log.iter().take(25).collect::<Vec<_>>()}));
    })
}
