//! C08 — A peer is served data only for rooms it is a member of.
use crate::peer::{small_config, Identity, Peer};
use crate::runner::{Acc, CaseFut, Ctx, PropDef};
use crate::snapshot::Snapshot;
use crate::sync::{fake_peer_service, query_kind};
use crate::util::{b64, clock_set, clock_step, day_of, short, DAY, T0};
use crate::world::{GroupSpec, RightSpec, RoomEdit, RoomHandle, RoomSpec, MODEL};
use discret::verif::database::daily_log::{DailyLog, RoomDefinitionLog};
use discret::verif::database::edge::{Edge, EdgeDeletionEntry};
use discret::verif::database::node::{Node, NodeDeletionEntry, NodeIdentifier};
use discret::verif::database::room_node::RoomNode;
use discret::verif::security::{HardwareFingerprint, Uid};
use discret::verif::synchronisation::peer_inbound_service::LocalPeerService;
use discret::verif::synchronisation::peer_outbound_service::{InboundQueryService, RemotePeerHandle};
use discret::verif::synchronisation::{Answer, LocalEvent, Query, QueryProtocol, RemoteEvent};
use discret::{Parameters, ParametersAdd};
use rand::rngs::StdRng;
use rand::Rng;
use serde_json::{json, Value};
use std::collections::{HashSet, VecDeque};
use std::sync::atomic::AtomicBool;
use std::sync::Arc;
use std::time::Duration;
use tokio::sync::{mpsc, Mutex};

pub static DEF: PropDef = PropDef {
    id: "C08",
    level: "exploration",
    rule: "a real instance holds five rooms with rows, references and deletion records; the requester key is a member of one, a former member (disabled earlier) of another, never a member of a third, admin only of a fourth and user admin only of a fifth. Random sequences of up to 25 requests over the 13 request kinds of the protocol, with room, row, entity and date arguments drawn from all rooms (room of one with rows of another), are sent to the library's own InboundQueryService before authentication, after it, before and after RoomList, interleaved with definition changes on the instance (requester disabled / re-enabled, unrelated member added) delivered through the library's own local-event handler. Every answer is decoded by kind and every item mapped to its room; the room must be one the rights model says the key is a member of at that moment, and nothing at all may be served before authentication. non-trivial = sequence naming a non-member room after authentication; distinct = canonical (phase, request kind, target membership) sequence The requester is also a former admin and a former user admin of two rooms; requests also name rows that belong to no room (definition rows of every room, a private row): a served row or reference without room is nobody's. Cross-room references from the first row of every other room to the first row of the member room.",
    assumptions: &[
        "authentication itself (C19) is represented by the key the connection has bound after a successful proof; here the harness sets it as initialise_connection does",
        "identifiers that appear inside legitimately served rows (target of a reference) are not counted as data of the target's room",
    ],
    cases: |t| t.pick(80, 2000),
    shards: |t| t.pick(12, 16),
    case_budget_s: |_| 240,
    min_conclusive: |t| t.pick(30, 600),
    run_case,
    finish: None,
    worker_threads: 4,
    tokio_per_case: true,
};

struct Conn {
    q_tx: mpsc::Sender<QueryProtocol>,
    a_rx: mpsc::Receiver<Answer>,
    key: Arc<Mutex<Vec<u8>>>,
    inbound: InboundQueryService,
    ev_tx: mpsc::Sender<RemoteEvent>,
    ev_rx: mpsc::Receiver<RemoteEvent>,
    next_id: u64,
}

async fn ask(c: &mut Conn, q: Query) -> Vec<Answer> {
    let id = c.next_id;
    c.next_id += 1;
    if c.q_tx.send(QueryProtocol { id, query: q }).await.is_err() {
        return vec![];
    }
    let mut out = Vec::new();
    loop {
        match tokio::time::timeout(Duration::from_millis(400), c.a_rx.recv()).await {
            Ok(Some(a)) => {
                let done = a.complete;
                if a.id == id {
                    out.push(a);
                    if done {
                        break;
                    }
                }
            }
            _ => break,
        }
    }
    out
}

/// rooms of the items carried by the answers to one request
fn rooms_served(kind: &str, req_room: Option<Uid>, answers: &[Answer], snap: &Snapshot) -> Vec<(Uid, String)> {
    let mut out: Vec<(Uid, String)> = Vec::new();
    let room_of_node = |id: &Uid| -> Option<Uid> {
        snap.nodes.iter().find(|(k, _)| &k.0 == id).and_then(|(_, n)| n.room_id)
    };
    for a in answers {
        if !a.success {
            continue;
        }
        let single = matches!(kind, "RoomNode" | "RoomDefinition" | "RoomLogAt");
        if !single && a.complete {
            continue;
        }
        match kind {
            "RoomList" => {
                if let Ok(v) = bincode::deserialize::<VecDeque<Uid>>(&a.serialized) {
                    for r in v {
                        out.push((r, "room identifier in the room list".into()));
                    }
                }
            }
            "RoomDefinition" => {
                if let Ok(Some(d)) = bincode::deserialize::<Option<RoomDefinitionLog>>(&a.serialized) {
                    out.push((d.room_id, "room definition log".into()));
                }
            }
            "RoomNode" => {
                if let Ok(Some(d)) = bincode::deserialize::<Option<RoomNode>>(&a.serialized) {
                    out.push((d.node.id, "room definition".into()));
                }
            }
            "RoomLog" | "RoomLogAt" => {
                if let Ok(v) = bincode::deserialize::<Vec<DailyLog>>(&a.serialized) {
                    for l in v {
                        out.push((l.room_id, "daily log entry".into()));
                    }
                }
            }
            "EdgeDeletionLog" => {
                if let Ok(v) = bincode::deserialize::<Vec<EdgeDeletionEntry>>(&a.serialized) {
                    for l in v {
                        out.push((l.room_id, "reference deletion record".into()));
                    }
                }
            }
            "NodeDeletionLog" => {
                if let Ok(v) = bincode::deserialize::<Vec<NodeDeletionEntry>>(&a.serialized) {
                    for l in v {
                        out.push((l.room_id, "row deletion record".into()));
                    }
                }
            }
            "RoomDailyNodes" => {
                if let Ok(v) = bincode::deserialize::<Vec<NodeIdentifier>>(&a.serialized) {
                    for l in v {
                        if let Some(r) = room_of_node(&l.id) {
                            out.push((r, "row identifier and signature".into()));
                        }
                    }
                }
            }
            "Nodes" => {
                if let Ok(v) = bincode::deserialize::<Vec<Node>>(&a.serialized) {
                    for n in v {
                        match n.room_id {
                            Some(r) => out.push((r, "row".into())),
                            // definition rows of rooms and the instance's private rows have no room: nobody is served them
                            // through a data request
                            None => out.push(([0xEE; 16], format!("row of entity {} that belongs to no room", n._entity))),
                        }
                    }
                }
            }
            "Edges" => {
                if let Ok(v) = bincode::deserialize::<Vec<Edge>>(&a.serialized) {
                    for e in v {
                        match room_of_node(&e.src) {
                            Some(r) => out.push((r, "reference".into())),
                            None => out.push(([0xEE; 16], format!("reference from a row of entity {} that belongs to no room", e.src_entity))),
                        }
                    }
                }
            }
            "PeersForRoom" => {
                if let Ok(v) = bincode::deserialize::<Vec<Node>>(&a.serialized) {
                    if !v.is_empty() {
                        if let Some(r) = req_room {
                            out.push((r, "member list".into()));
                        }
                    }
                }
            }
            _ => {}
        }
    }
    out
}

fn run_case<'a>(ctx: &'a Ctx, case: u64, acc: &'a mut Acc) -> CaseFut<'a> {
    Box::pin(async move {
        let mut rng: StdRng = ctx.rng(case);
        let dir = ctx.case_dir(case);
        let seed = ctx.case_seed(case);
        clock_set(T0);
        clock_step(0);
        let mut t = T0 + 10;
        clock_set(t);
        let s = match Peer::start("S", seed, 0, MODEL, &dir.join("s"), small_config()).await {
            Ok(p) => p,
            Err(e) => {
                acc.inconclusive(e);
                return;
            }
        };
        let req = Identity::new(seed, 70);
        let other = Identity::new(seed, 71);
        let r = |e: &str| RightSpec { entity: e.to_string(), own: true, all: true };
        let mk = |users: Vec<(Vec<u8>, bool)>, admins: Vec<(Vec<u8>, bool)>, uadmins: Vec<(Vec<u8>, bool)>| RoomSpec {
            admins,
            groups: vec![GroupSpec { name: "g".into(), users, user_admins: uadmins, rights: vec![r("*")] }],
        };
        let me = (s.id.vkey.clone(), true);
        let specs = vec![
            ("member", mk(vec![(req.vkey.clone(), true), me.clone()], vec![me.clone()], vec![])),
            ("former-member", mk(vec![(req.vkey.clone(), true), me.clone()], vec![me.clone()], vec![])),
            ("never-member", mk(vec![(other.vkey.clone(), true), me.clone()], vec![me.clone()], vec![])),
            ("admin-only", mk(vec![me.clone()], vec![me.clone(), (req.vkey.clone(), true)], vec![])),
            ("user-admin-only", mk(vec![me.clone()], vec![me.clone()], vec![(req.vkey.clone(), true)])),
            ("former-admin", mk(vec![me.clone()], vec![me.clone(), (req.vkey.clone(), true)], vec![])),
            ("former-user-admin", mk(vec![me.clone()], vec![me.clone()], vec![(req.vkey.clone(), true)])),
        ];
        let mut rooms: Vec<(&str, RoomHandle)> = Vec::new();
        for (name, spec) in specs {
            t += 2;
            clock_set(t);
            match s.create_room(&spec).await {
                Ok(h) => rooms.push((name, h)),
                Err(e) => {
                    acc.inconclusive(e);
                    return;
                }
            }
        }
        // rows, a reference and a deletion in every room
        let mut row_ids: Vec<Vec<Uid>> = Vec::new();
        for (_, h) in &rooms {
            t += 5;
            clock_set(t);
            let mut p = Parameters::new();
            p.add("room", h.id64()).unwrap();
            let res = s.mutate_raw("mutate { Person{ room_id:$room name:\"a\" pet:{name:\"p\"} parents:[{name:\"q\"}] } }", Some(p)).await.unwrap();
            let e = &res.mutate_entities[0];
            let mut ids = vec![e.node_to_mutate.id];
            ids.push(e.sub_nodes.get("pet").unwrap()[0].node_to_mutate.id);
            ids.push(e.sub_nodes.get("parents").unwrap()[0].node_to_mutate.id);
            let mut p = Parameters::new();
            p.add("room", h.id64()).unwrap();
            let res = s.mutate("mutate { Pet{ room_id:$room name:\"to delete\" } }", Some(p)).await.unwrap();
            let v: Value = serde_json::from_str(&res).unwrap();
            let mut p = Parameters::new();
            p.add("id", v["Pet"]["id"].as_str().unwrap().to_string()).unwrap();
            s.delete("delete { Pet{ $id } }", Some(p)).await.unwrap();
            row_ids.push(ids);
        }
        // cross-room references: the first row of every other room refers to the first row of the member room
        for j in 1..rooms.len() {
            let mut p = Parameters::new();
            p.add("id", b64(&row_ids[j][0])).unwrap();
            p.add("target", b64(&row_ids[0][0])).unwrap();
            let _ = s.mutate("mutate { Person{ id:$id parents:[{id:$target}] } }", Some(p)).await;
        }
        // the requester is disabled in the "former-member" room one day later
        t += DAY;
        clock_set(t);
        let mut former = rooms[1].1.clone();
        s.edit_room(&mut former, &RoomEdit::User(0, req.vkey.clone(), false)).await.unwrap();
        rooms[1].1 = former;
        // and loses its admin / user admin role in two other rooms
        let mut h = rooms[5].1.clone();
        s.edit_room(&mut h, &RoomEdit::Admin(req.vkey.clone(), false)).await.unwrap();
        rooms[5].1 = h;
        let mut h = rooms[6].1.clone();
        s.edit_room(&mut h, &RoomEdit::UserAdmin(0, req.vkey.clone(), false)).await.unwrap();
        rooms[6].1 = h;
        t += DAY;
        clock_set(t);
        s.recompute().await;

        // rows that belong to no room: the definition rows of every room and a private row of the instance
        let _ = s.mutate("mutate { Person{ name:\"private row of the instance\" } }", None).await;
        let roomless: Vec<Uid> = s.snapshot().await.nodes.values().filter(|n| n.room_id.is_none()).map(|n| n.id).collect();
        // the connection
        let (q_tx, q_rx) = mpsc::channel::<QueryProtocol>(8);
        let (a_tx, a_rx) = mpsc::channel::<Answer>(64);
        let (ps, _log) = fake_peer_service();
        let key = Arc::new(Mutex::new(Vec::<u8>::new()));
        let ready = Arc::new(AtomicBool::new(true));
        let inbound = InboundQueryService::start(
            HardwareFingerprint { id: [0; 16], name: "dv".into() },
            [5; 32],
            [6; 16],
            RemotePeerHandle { allowed_room: HashSet::new(), db: s.db.clone(), verifying_key: s.id.vkey.clone(), reply: a_tx },
            q_rx,
            ps,
            key.clone(),
            ready,
        );
        let (ev_tx, ev_rx) = mpsc::channel::<RemoteEvent>(64);
        let mut conn = Conn { q_tx, a_rx, key, inbound, ev_tx, ev_rx, next_id: 1 };

        let n_req = rng.gen_range(8..=25);
        let auth_at = rng.gen_range(0..4);
        let mut authenticated = false;
        let mut listed = false;
        let mut trace: Vec<String> = Vec::new();
        let mut log: Vec<Value> = Vec::new();
        let mut named_non_member = false;
        let mut remote_rooms: HashSet<Uid> = HashSet::new();
        let days = [day_of(T0), day_of(T0 + DAY), day_of(T0 + 2 * DAY)];
        for step in 0..n_req {
            t += rng.gen_range(1..1000);
            clock_set(t);
            if step == auth_at {
                *conn.key.lock().await = req.vkey.clone();
                authenticated = true;
                log.push(json!({"step": step, "event": "authenticated"}));
            }
            // definition changes on the instance, delivered as local events
            if authenticated && rng.gen_bool(0.15) {
                let (which, edit) = match rng.gen_range(0..3) {
                    0 => (0usize, RoomEdit::User(0, req.vkey.clone(), false)),
                    1 => (1usize, RoomEdit::User(0, other.vkey.clone(), true)),
                    _ => (2usize, RoomEdit::User(0, other.vkey.clone(), false)),
                };
                let mut h = rooms[which].1.clone();
                if s.edit_room(&mut h, &edit).await.is_ok() {
                    rooms[which].1 = h;
                    if let Some(live) = s.room(rooms[which].1.id).await {
                        let _ = LocalPeerService::verif_process_local_event(
                            LocalEvent::RoomDefinitionChanged(Arc::new(live)),
                            &conn.key,
                            &conn.ev_tx,
                            &remote_rooms,
                            &conn.inbound,
                        )
                        .await;
                        tokio::task::yield_now().await;
                        tokio::time::sleep(Duration::from_millis(2)).await;
                    }
                    log.push(json!({"step": step, "event": format!("definition of the {} room changed: {:?}", rooms[which].0, edit.describe())}));
                    trace.push(format!("def-change-{}", rooms[which].0));
                    t += 5;
                    clock_set(t);
                }
            }
            let ri = rng.gen_range(0..rooms.len());
            let rj = if rng.gen_bool(0.4) { rng.gen_range(0..rooms.len()) } else { ri };
            let room = rooms[ri].1.id;
            let ent = ["0", "1", "2.0"][rng.gen_range(0..3)].to_string();
            let date = days[rng.gen_range(0..3)];
            let q = match rng.gen_range(0..13) {
                0 => Query::RoomList,
                1 => Query::RoomDefinition(room),
                2 => Query::RoomNode(room),
                3 => Query::RoomLog(room),
                4 => Query::RoomLogAt(room, date),
                5 => Query::EdgeDeletionLog(room, ent, date),
                6 => Query::NodeDeletionLog(room, ent, date),
                7 => Query::RoomDailyNodes(room, ent, date),
                8 | 9 => {
                    let mut ids = row_ids[rj].clone();
                    if rng.gen_bool(0.5) {
                        ids.extend(roomless.iter().copied());
                    }
                    Query::Nodes(room, ids)
                }
                10 => {
                    let mut ids = row_ids[rj].clone();
                    if rng.gen_bool(0.5) {
                        ids.extend(roomless.iter().copied());
                    }
                    Query::Edges(room, ids.iter().map(|i| (*i, 0)).collect())
                }
                11 => Query::PeersForRoom(room),
                _ => Query::HardwareFingerprint(),
            };
            let kind = query_kind(&q);
            if kind == "RoomList" && authenticated {
                listed = true;
            }
            let snap = s.snapshot().await;
            let answers = ask(&mut conn, q).await;
            acc.count("requests", 1);
            acc.count(&format!("request/{}", kind), 1);
            let served = rooms_served(kind, Some(room), &answers, &snap);
            acc.count("items_served", served.len() as u64);
            let phase = if !authenticated { "before-authentication" } else if !listed { "before-room-list" } else { "after-room-list" };
            trace.push(format!("{}:{}:{}{}", phase, kind, rooms[ri].0, if ri != rj { "+rows-of-other-room" } else { "" }));
            log.push(json!({"step": step, "phase": phase, "request": kind, "room": rooms[ri].0, "rows_of": rooms[rj].0, "items": served.len()}));
            for (r, what) in &served {
                remote_rooms.insert(*r);
            }
            for (r, what) in served {
                let idx = rooms.iter().position(|x| x.1.id == r);
                let (name, member) = match idx {
                    Some(i) => (rooms[i].0, rooms[i].1.model.is_member(&req.vkey, t)),
                    None => {
                        // the instance's private room or an unknown room: never the requester's
                        ("private-or-unknown", false)
                    }
                };
                if authenticated && !member {
                    named_non_member = true;
                }
                if !authenticated {
                    acc.violation(
                        format!("C08/data-served-before-authentication/{}", kind),
                        json!({"item": what, "room": name, "history": log}),
                    );
                    return;
                }
                if !member {
                    let status = match name {
                        "member" => "disabled-during-the-connection",
                        x => x,
                    };
                    acc.violation(
                        format!("C08/data-of-a-room-the-key-is-not-a-member-of/{}/{}", status, kind),
                        json!({"item": what, "room": name, "requester": short(&req.vkey), "history": log}),
                    );
                    return;
                }
            }
            // events pushed to the requester: only for member rooms
            while let Ok(ev) = conn.ev_rx.try_recv() {
                let r = match ev {
                    RemoteEvent::RoomDefinitionChanged(r) | RemoteEvent::RoomDataChanged(r) => Some(r),
                    _ => None,
                };
                if let Some(r) = r {
                    acc.count("remote_events_observed", 1);
                    if let Some(i) = rooms.iter().position(|x| x.1.id == r) {
                        if !rooms[i].1.model.is_member(&req.vkey, t) {
                            acc.violation(
                                format!("C08/room-event-sent-for-a-room-the-key-is-not-a-member-of/{}", rooms[i].0),
                                json!({"history": log}),
                            );
                            return;
                        }
                    }
                }
            }
            if ri != rj || !rooms[ri].1.model.is_member(&req.vkey, t) {
                if authenticated {
                    named_non_member = true;
                }
            }
        }
        let key = if named_non_member {
            let mut h = blake3::Hasher::new();
            for x in &trace {
                h.update(x.as_bytes());
            }
            Some(hex::encode(&h.finalize().as_bytes()[0..8]))
        } else {
            None
        };
        for x in &trace {
            acc.distinct("phase_kind_target", x.clone());
        }
        acc.held(key);
        acc.sample(json!({"history": log.iter().take(25).collect::<Vec<_>>()}));
        let _ = b64;
    })
}
