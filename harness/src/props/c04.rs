//! C04 — Values round-trip unchanged and text is never executed.
use crate::runner::{Acc, CaseFut, Ctx, PropDef};
use crate::snapshot::{diff, read_snapshot};
use crate::util::{b64, clock_set, clock_step, T0};
use discret::verif::database::mutation_query::MutationQuery;
use discret::verif::database::query::{PreparedQueries, Query};
use discret::verif::database::query_language::data_model_parser::DataModel;
use discret::verif::database::query_language::mutation_parser::MutationParser;
use discret::verif::database::query_language::query_parser::QueryParser;
use discret::verif::database::sqlite_database::{prepare_connection, Writeable};
use discret::{Parameters, ParametersAdd};
use rand::rngs::StdRng;
use rand::Rng;
use serde_json::{json, Value};
use std::sync::Arc;

pub static DEF: PropDef = PropDef {
    id: "C04",
    level: "exploration",
    rule: "values of every scalar type (strings with quotes, backslashes, control characters, SQL and JSON metacharacters, ';--, ?1, $x, %, _, arbitrary Unicode scalars, empty, 64 KiB; integers at the i64 and 2^53 edges; finite floats incl. subnormals, -0.0, 1e+-308; booleans; base64 of every length mod 3; nested JSON with unicode keys and large numbers; null where allowed) written as parameter, as literal (encoded with the escapes the grammar accepts) or as a field default, read back, used as equality filter (parameter and literal) and as search term, on a real in-memory connection through the library's parser and executor, with two sentinel rows present. Oracles: value read == value written; the equality filter returns exactly the row; storage diff shows only the target row; the SQL text and parameter count compiled for a literal / default v equal those compiled for a benign value of the same type; no engine error. non-trivial = value with a metacharacter class or a numeric edge; distinct = (type, position, character-class set) R2b: a literal whose text is the name of a variable of the same request, both orders. R3b: a later write of another field of the row leaves the value and the default-bearing field as written. Integer literals up to +-i64::MAX written to and filtered on a Float field.",
    assumptions: &[
        "float equality is numeric (-0.0 == 0.0); equality filters on Json fields and query-syntax characters in search terms are not demanded",
    ],
    cases: |t| t.pick(400, 12000),
    shards: |t| t.pick(12, 16),
    case_budget_s: |_| 300,
    min_conclusive: |t| t.pick(100, 3000),
    run_case,
    finish: None,
    worker_threads: 1,
    tokio_per_case: false,
};

fn model(default_s: &str) -> String {
    format!(
        "{{ V{{ s:String nullable, i:Integer nullable, f:Float nullable, b:Boolean nullable, x:Base64 nullable, j:Json nullable, d:String default \"{}\" }} }}",
        default_s
    )
}

/// encodes a string with the escapes the grammars accept inside a string literal
fn escape(s: &str) -> String {
    let mut o = String::new();
    for c in s.chars() {
        match c {
            '"' => o.push_str("\\\""),
            '\\' => o.push_str("\\\\"),
            '\n' => o.push_str("\\n"),
            '\r' => o.push_str("\\r"),
            '\t' => o.push_str("\\t"),
            c if (c as u32) < 0x20 => o.push_str(&format!("\\u{:04x}", c as u32)),
            c => o.push(c),
        }
    }
    o
}

fn classes(s: &str) -> Vec<&'static str> {
    let mut v = Vec::new();
    if s.contains('"') {
        v.push("dquote");
    }
    if s.contains('\'') {
        v.push("squote");
    }
    if s.contains('\\') {
        v.push("backslash");
    }
    if s.chars().any(|c| (c as u32) < 0x20) {
        v.push("control");
    }
    if s.contains(';') || s.contains("--") || s.contains('?') || s.contains('$') || s.contains('%') {
        v.push("sql-meta");
    }
    if s.contains('{') || s.contains('[') || s.contains(':') {
        v.push("json-meta");
    }
    if s.chars().any(|c| (c as u32) > 0x7f) {
        v.push("unicode");
    }
    if s.is_empty() {
        v.push("empty");
    }
    if s.len() > 1000 {
        v.push("long");
    }
    v
}

fn rand_string(rng: &mut StdRng) -> String {
    let special = ["\"", "'", "\\", "\n", "\t", "\u{0}", "\u{1}", "\u{1f}", ";--", "';--", "?1", "$x", "%", "_", "{", "}", "[", "]", ":", ",", "é", "漢", "😀", "\u{202e}", " OR 1=1 ", "'); DROP TABLE _node;--", "\\\"", "\\n", "\\u0041", "\"}", "null", "true"];
    match rng.gen_range(0..13) {
        0 => String::new(),
        12 => ["who", "v", "id", "name", "t"][rng.gen_range(0..5)].to_string(),
        1 => "x".repeat(65536),
        2 => {
            // arbitrary unicode scalars
            (0..rng.gen_range(1..12)).map(|_| loop {
                if let Some(c) = char::from_u32(rng.gen_range(0..0x11000)) {
                    break c;
                }
            }).collect()
        }
        _ => {
            let mut s = String::new();
            for _ in 0..rng.gen_range(1..6) {
                if rng.gen_bool(0.6) {
                    s.push_str(special[rng.gen_range(0..special.len())]);
                } else {
                    s.push_str(["a", "b", "hello", " "][rng.gen_range(0..4)]);
                }
            }
            s
        }
    }
}

fn rand_int(rng: &mut StdRng) -> i64 {
    let edges = [0, 1, -1, i64::MAX, i64::MIN, i64::MAX - 1, i64::MIN + 1, (1 << 53), (1 << 53) + 1, (1 << 53) - 1, -(1 << 53) - 1, 1 << 31, -(1 << 31) - 1];
    if rng.gen_bool(0.7) {
        edges[rng.gen_range(0..edges.len())]
    } else {
        rng.gen()
    }
}

fn rand_float(rng: &mut StdRng) -> f64 {
    let edges = [0.0, -0.0, 1.0, -1.5, 5e-324, 2.2250738585072014e-308, 1e308, -1e308, 1.7976931348623157e308, 0.1, 0.30000000000000004, 1e-7, 123456789.12345679, 1e21, 1e22, 9007199254740993.0];
    if rng.gen_bool(0.7) {
        edges[rng.gen_range(0..edges.len())]
    } else {
        loop {
            let f = f64::from_bits(rng.gen());
            if f.is_finite() {
                break f;
            }
        }
    }
}

fn rand_json(rng: &mut StdRng, depth: usize) -> Value {
    match rng.gen_range(0..7) {
        0 if depth > 0 => json!(rand_string(rng).chars().take(20).collect::<String>()),
        1 if depth > 0 => json!(rand_int(rng)),
        2 if depth > 0 => json!(rng.gen_bool(0.5)),
        3 if depth > 0 => Value::Null,
        4 | 5 if depth < 3 => {
            let mut m = serde_json::Map::new();
            for _ in 0..rng.gen_range(0..4) {
                let k: String = rand_string(rng).chars().take(10).collect();
                m.insert(k, rand_json(rng, depth + 1));
            }
            Value::Object(m)
        }
        _ if depth < 3 => Value::Array((0..rng.gen_range(0..4)).map(|_| rand_json(rng, depth + 1)).collect()),
        _ => json!({}),
    }
}

struct Db {
    conn: rusqlite::Connection,
    dm: DataModel,
}
impl Db {
    fn new(model_text: &str) -> Result<Self, String> {
        let conn = rusqlite::Connection::open_in_memory().unwrap();
        prepare_connection(&conn).unwrap();
        let mut dm = DataModel::new();
        dm.update(model_text).map_err(|e| e.to_string())?;
        Ok(Self { conn, dm })
    }
    fn mutate(&self, text: &str, mut params: Parameters) -> Result<MutationQuery, String> {
        let p = Arc::new(MutationParser::parse(text, &self.dm).map_err(|e| format!("parse: {}", e))?);
        let mut q = MutationQuery::execute(&mut params, p, &self.conn).map_err(|e| format!("execute: {}", e))?;
        q.write(&self.conn).map_err(|e| format!("engine: {}", e))?;
        Ok(q)
    }
    fn query(&self, text: &str, params: Parameters) -> Result<Value, String> {
        let s = self.query_raw(text, params)?;
        serde_json::from_str(&s).map_err(|e| format!("invalid json: {}", e))
    }
    fn query_raw(&self, text: &str, params: Parameters) -> Result<String, String> {
        let parser = QueryParser::parse(text, &self.dm).map_err(|e| format!("parse: {}", e))?;
        let prepared = PreparedQueries::build(&parser).map_err(|e| format!("build: {}", e))?;
        let mut q = Query { parameters: params, parser: Arc::new(parser), sql_queries: Arc::new(prepared) };
        let s = q.read(&self.conn).map_err(|e| match e {
            discret::verif::database::Error::Database(e) => format!("engine: {}", e),
            e => format!("read: {}", e),
        })?;
        Ok(s)
    }
    /// (sql text, parameter count) compiled for a query
    fn compiled(&self, text: &str) -> Result<(String, usize), String> {
        let parser = QueryParser::parse(text, &self.dm).map_err(|e| format!("parse: {}", e))?;
        let prepared = PreparedQueries::build(&parser).map_err(|e| format!("build: {}", e))?;
        let q = &prepared.sql_queries[0];
        Ok((q.sql_query.clone(), q.var_order.len()))
    }
}

#[derive(Clone, Debug)]
enum Val {
    S(String),
    I(i64),
    F(f64),
    B(bool),
    X(String),
    J(Value),
}
impl Val {
    fn field(&self) -> &'static str {
        match self {
            Val::S(_) => "s",
            Val::I(_) => "i",
            Val::F(_) => "f",
            Val::B(_) => "b",
            Val::X(_) => "x",
            Val::J(_) => "j",
        }
    }
    fn ty(&self) -> &'static str {
        match self {
            Val::S(_) => "String",
            Val::I(_) => "Integer",
            Val::F(_) => "Float",
            Val::B(_) => "Boolean",
            Val::X(_) => "Base64",
            Val::J(_) => "Json",
        }
    }
    fn add(&self, p: &mut Parameters, name: &str) {
        match self {
            Val::S(s) | Val::X(s) => p.add(name, s.clone()).unwrap(),
            Val::I(i) => p.add(name, *i).unwrap(),
            Val::F(f) => p.add(name, *f).unwrap(),
            Val::B(b) => p.add(name, *b).unwrap(),
            Val::J(j) => p.add(name, j.to_string()).unwrap(),
        }
    }
    fn literal(&self) -> String {
        match self {
            Val::S(s) | Val::X(s) => format!("\"{}\"", escape(s)),
            Val::I(i) => i.to_string(),
            Val::F(f) => {
                let s = format!("{:?}", f);
                if s.contains('.') {
                    s
                } else if let Some(p) = s.find('e') {
                    format!("{}.0{}", &s[..p], &s[p..])
                } else {
                    format!("{}.0", s)
                }
            }
            Val::B(b) => b.to_string(),
            Val::J(j) => format!("\"{}\"", escape(&j.to_string())),
        }
    }
    fn expected(&self) -> Value {
        match self {
            Val::S(s) | Val::X(s) => json!(s),
            Val::I(i) => json!(i),
            Val::F(f) => json!(f),
            Val::B(b) => json!(b),
            Val::J(j) => j.clone(),
        }
    }
    fn class_key(&self) -> String {
        match self {
            Val::S(s) => classes(s).join("+"),
            Val::I(i) => if i.unsigned_abs() > (1u64 << 53) { "beyond-2^53".into() } else if *i < 0 { "negative".into() } else { "small".into() },
            Val::F(f) => if *f != 0.0 && f.abs() < 2.3e-308 { "subnormal".into() } else if f.abs() > 1e300 { "huge".into() } else if *f == 0.0 { "zero".into() } else { "ordinary".into() },
            Val::B(_) => "bool".into(),
            Val::X(s) => format!("len-mod-3={}", s.len() % 4),
            Val::J(j) => if j.is_object() { "object".into() } else { "array".into() },
        }
    }
    fn benign(&self) -> Val {
        match self {
            Val::S(_) => Val::S("benign".into()),
            Val::I(_) => Val::I(7),
            Val::F(_) => Val::F(7.5),
            Val::B(_) => Val::B(true),
            Val::X(_) => Val::X("AQID".into()),
            Val::J(_) => Val::J(json!({"a": 1})),
        }
    }
}

/// number of significant decimal digits of the shortest representation of a float
fn sig_digits(f: f64) -> usize {
    let s = format!("{:e}", f);
    s.split('e').next().unwrap_or("").chars().filter(|c| c.is_ascii_digit()).collect::<String>().trim_start_matches('0').len()
}

fn same(expected: &Value, got: &Value) -> bool {
    match (expected, got) {
        (Value::Number(a), Value::Number(b)) => {
            if a.is_f64() || b.is_f64() {
                a.as_f64() == b.as_f64()
            } else {
                a == b
            }
        }
        (Value::Array(a), Value::Array(b)) => a.len() == b.len() && a.iter().zip(b.iter()).all(|(x, y)| same(x, y)),
        (Value::Object(a), Value::Object(b)) => a.len() == b.len() && a.iter().all(|(k, v)| b.get(k).map(|w| same(v, w)).unwrap_or(false)),
        _ => expected == got,
    }
}

fn rand_val(rng: &mut StdRng) -> Val {
    match rng.gen_range(0..10) {
        0..=3 => Val::S(rand_string(rng)),
        4 => Val::I(rand_int(rng)),
        5 => Val::F(rand_float(rng)),
        6 => Val::B(rng.gen_bool(0.5)),
        7 => {
            let n = rng.gen_range(0..40);
            let bytes: Vec<u8> = (0..n).map(|_| rng.gen()).collect();
            Val::X(b64(&bytes))
        }
        _ => {
            let j = rand_json(rng, 0);
            Val::J(if j.is_object() || j.is_array() { j } else { json!({"v": j}) })
        }
    }
}

fn run_case<'a>(ctx: &'a Ctx, case: u64, acc: &'a mut Acc) -> CaseFut<'a> {
    Box::pin(async move {
        let mut rng = ctx.rng(case);
        clock_set(T0 + case as i64 * 1_000_000);
        clock_step(1);
        let db = Db::new(&model("plain")).unwrap();
        // two sentinel rows
        let mut p = Parameters::new();
        p.add("s", "sentinel one".to_string()).unwrap();
        db.mutate("mutate { V{ s:$s i:1 } }", p).unwrap();
        let mut p = Parameters::new();
        p.add("s", "sentinel two".to_string()).unwrap();
        db.mutate("mutate { V{ s:$s i:2 } }", p).unwrap();
        // integer literals written to and filtered on a Float field: the literal means the same double in both places
        for lit in ["3", "-17", "9007199254740992", "9007199254740993", "-9007199254740993", "1234567890123456789", "9223372036854775807", "-9223372036854775807"] {
            acc.count("position/Float/integer-literal", 1);
            match db.mutate(&format!("mutate {{ V{{ f:{} }} }}", lit), Parameters::new()) {
                Ok(q) => {
                    let id = b64(&q.mutate_entities[0].node_to_mutate.id);
                    match db.query(&format!("query {{ r: V(f = {}){{ id }} }}", lit), Parameters::new()) {
                        Ok(r) => {
                            let ids: Vec<String> = r["r"].as_array().map(|a| a.iter().filter_map(|x| x["id"].as_str().map(|s| s.to_string())).collect()).unwrap_or_default();
                            if !ids.contains(&id) {
                                acc.violation("C04/equality-filter-misses-the-row/Float/integer-literal-on-a-float-field", json!({"literal": lit, "returned": ids.len()}));
                            }
                        }
                        Err(e) => acc.violation("C04/error-on-filter/Float/integer-literal-on-a-float-field", json!({"literal": lit, "error": e})),
                    }
                }
                Err(e) => acc.violation("C04/valid-value-refused/Float/integer-literal-on-a-float-field", json!({"literal": lit, "error": e})),
            }
        }
        let n_values = ctx.tier.pick(60, 120);
        let mut violated = false;
        for _ in 0..n_values {
            let v = rand_val(&mut rng);
            let as_literal = rng.gen_bool(0.45);
            let position = if as_literal { "literal" } else { "parameter" };
            let fld = v.field();
            let before = read_snapshot(&db.conn).unwrap();
            let res = if as_literal {
                db.mutate(&format!("mutate {{ V{{ {}:{} }} }}", fld, v.literal()), Parameters::new())
            } else {
                let mut p = Parameters::new();
                v.add(&mut p, "v");
                db.mutate(&format!("mutate {{ V{{ {}:$v }} }}", fld), p)
            };
            acc.count("values", 1);
            acc.count(&format!("position/{}/{}", v.ty(), position), 1);
            let witness = |why: &str, extra: Value| json!({"why": why, "type": v.ty(), "position": position, "value": match &v { Val::S(s) if s.len() > 200 => json!(format!("{}... ({} bytes)", &s[..40.min(s.len())], s.len())), _ => v.expected() }, "literal": if as_literal { Some(v.literal().chars().take(200).collect::<String>()) } else { None }, "detail": extra});
            let q = match res {
                Ok(q) => q,
                Err(e) => {
                    if e.starts_with("engine") {
                        acc.violation(format!("C04/engine-error-on-write/{}/{}", v.ty(), position), witness("the database engine rejected the statement", json!(e)));
                        violated = true;
                    } else {
                        // a value refused by validation (not an engine error) is not a round trip failure,
                        // except for values the type admits
                        acc.violation(format!("C04/valid-value-refused/{}/{}", v.ty(), position), witness("the value is valid for its type and was refused", json!(e)));
                        violated = true;
                    }
                    continue;
                }
            };
            let id = b64(&q.mutate_entities[0].node_to_mutate.id);
            // R3 only the new row appeared
            let after = read_snapshot(&db.conn).unwrap();
            let ch = diff(&before, &after);
            if ch.len() != 1 {
                acc.violation(format!("C04/write-touched-other-rows/{}/{}", v.ty(), position), witness("storage diff shows more than the target row", json!(ch.iter().take(3).map(|c| c.describe()).collect::<Vec<_>>())));
                violated = true;
            }
            // R3b: a later write of another field of the row (and a mere reference to the row from another row) leaves
            // the value, and the field that has a default, as they were written
            if rng.gen_bool(0.35) && !matches!(v, Val::F(_)) {
                let mut p = Parameters::new();
                p.add("id", id.clone()).unwrap();
                let set_d = db.mutate("mutate { V{ id:$id d:\"chosen, not the default\" } }", p);
                let other = if fld == "i" { "b:true" } else { "i:7" };
                let mut p = Parameters::new();
                p.add("id", id.clone()).unwrap();
                let upd = db.mutate(&format!("mutate {{ V{{ id:$id {} }} }}", other), p);
                if set_d.is_ok() && upd.is_ok() {
                    let mut p = Parameters::new();
                    p.add("id", id.clone()).unwrap();
                    acc.count("position/update-of-another-field", 1);
                    if let Ok(r) = db.query(&format!("query {{ r: V(id=$id){{ id {} d }} }}", fld), p) {
                        let got = r["r"][0][fld].clone();
                        let d = r["r"][0]["d"].clone();
                        if !same(&v.expected(), &got) || d != json!("chosen, not the default") {
                            acc.violation(
                                format!("C04/write-of-one-field-changed-another-field/{}", if d != json!("chosen, not the default") { "field-with-a-default" } else { "value-under-test" }),
                                witness("after V{ id field2:x } the other fields of the row are not what was written", json!({"value_read": got, "d_read": d})),
                            );
                            violated = true;
                            continue;
                        }
                    }
                }
            }
            // R1 read back
            let mut p = Parameters::new();
            p.add("id", id.clone()).unwrap();
            if let Val::F(f) = &v {
                let mut p2 = Parameters::new();
                p2.add("id", id.clone()).unwrap();
                if let Ok(raw) = db.query_raw(&format!("query {{ r: V(id=$id){{ {} }} }}", fld), p2) {
                    // {"r":[{"f":<number>}]}
                    let num: Option<f64> = raw.split("\"f\":").nth(1).and_then(|t| t.split(|c| c == '}' || c == ',').next()).and_then(|t| t.trim().parse::<f64>().ok());
                    acc.count("float_texts_parsed", 1);
                    if num != Some(*f) {
                        let mech = if sig_digits(*f) > 15 { "float-needing-more-than-15-significant-digits" } else { "value" };
                        acc.violation(
                            format!("C04/value-read-differs-from-value-written/Float/{}/{}", position, mech),
                            witness("round trip (number text of the answer parsed with a correctly rounded parser)", json!({"read_text": raw.chars().take(120).collect::<String>(), "written": format!("{:e}", f)})),
                        );
                        violated = true;
                    }
                }
            }
            match db.query(&format!("query {{ r: V(id=$id){{ id {} }} }}", fld), p) {
                Err(e) => {
                    acc.violation(format!("C04/{}-on-read/{}/{}", if e.starts_with("engine") { "engine-error" } else { "error" }, v.ty(), position), witness("reading the row back failed", json!(e)));
                    violated = true;
                    continue;
                }
                Ok(r) => {
                    let got = r["r"][0][fld].clone();
                    if !matches!(v, Val::F(_)) && !same(&v.expected(), &got) {
                        let mech = match &v {
                            Val::S(s) if as_literal && s.contains('\\') => "backslash-escape-in-a-literal-not-decoded",
                            Val::S(s) if as_literal && s.chars().any(|c| (c as u32) < 0x20) => "control-character-escape-in-a-literal-not-decoded",
                            Val::J(_) if as_literal => "json-literal",
                            Val::F(f) if sig_digits(*f) > 15 => "float-needing-more-than-15-significant-digits",
                            _ => "value",
                        };
                        acc.violation(
                            format!("C04/value-read-differs-from-value-written/{}/{}/{}", v.ty(), position, mech),
                            witness("round trip", json!({"read": match &got { Value::String(s) if s.len() > 200 => json!(format!("({} bytes)", s.len())), g => g.clone() }})),
                        );
                        violated = true;
                        continue;
                    }
                }
            }
            // R2 equality filter (parameter and literal), not for Json
            if !matches!(v, Val::J(_)) {
                for lit_filter in [false, true] {
                    let r = if lit_filter {
                        db.query(&format!("query {{ r: V({} = {}){{ id }} }}", fld, v.literal()), Parameters::new())
                    } else {
                        let mut p = Parameters::new();
                        v.add(&mut p, "v");
                        db.query(&format!("query {{ r: V({} = $v){{ id }} }}", fld), p)
                    };
                    let pos = if lit_filter { "filter-literal" } else { "filter-parameter" };
                    acc.count(&format!("position/{}/{}", v.ty(), pos), 1);
                    match r {
                        Err(e) => {
                            acc.violation(format!("C04/{}-on-filter/{}/{}", if e.starts_with("engine") { "engine-error" } else { "error" }, v.ty(), pos), witness("equality filter failed", json!(e)));
                            violated = true;
                        }
                        Ok(r) => {
                            let ids: Vec<String> = r["r"].as_array().map(|a| a.iter().filter_map(|x| x["id"].as_str().map(|s| s.to_string())).collect()).unwrap_or_default();
                            if !ids.contains(&id) {
                                // mechanism probe for floats: does the storage engine convert the stored JSON
                                // number text back to the very same double ?
                                let engine_exact = |f: f64| -> bool {
                                    let text = serde_json::to_string(&f).unwrap();
                                    db.conn
                                        .query_row("SELECT json_extract(?1,'$') = ?2", (text, f), |r| r.get::<_, bool>(0))
                                        .unwrap_or(true)
                                };
                                let mech = match &v {
                                    Val::S(s) if lit_filter && (s.contains('\\') || s.chars().any(|c| (c as u32) < 0x20)) => "escape-in-a-literal-not-decoded",
                                    Val::F(f) if !engine_exact(*f) => "storage-engine-text-to-real-conversion-is-not-exact-for-this-float",
                                    Val::F(_) => "float",
                                    _ => "value",
                                };
                                acc.violation(format!("C04/equality-filter-misses-the-row/{}/{}/{}", v.ty(), pos, mech), witness("the row written with the value is not returned by (field = value)", json!({"returned": ids.len()})));
                                violated = true;
                            }
                        }
                    }
                }
            }
            // R4 structure monitor: literal in a filter
            if !matches!(v, Val::J(_)) {
                let a = db.compiled(&format!("query {{ r: V({} = {}){{ id }} }}", fld, v.literal()));
                let b = db.compiled(&format!("query {{ r: V({} = {}){{ id }} }}", fld, v.benign().literal()));
                if let (Ok(a), Ok(b)) = (a, b) {
                    acc.count("structure_comparisons", 1);
                    let depends = match &v {
                        // numbers and booleans are written in the statement by design of the compiler; only text must never be
                        Val::S(_) | Val::X(_) => a != b,
                        _ => a.1 != b.1,
                    };
                    if depends {
                        acc.violation(format!("C04/statement-structure-depends-on-a-literal/{}", v.ty()), witness("the compiled SQL differs from the SQL of a benign literal", json!({"sql": a.0.chars().take(300).collect::<String>()})));
                        violated = true;
                    }
                }
            }
            // R2b: a string literal whose text is the name of a variable of the same request (both orders): the literal
            // means its text, the variable means the value given for it
            if let Val::S(s) = &v {
                let ident = !s.is_empty() && s.len() < 20 && s.chars().all(|c| c.is_ascii_alphabetic()) ;
                if ident {
                    for order in ["literal-first", "variable-first"] {
                        let mut p = Parameters::new();
                        p.add(s, id.clone()).unwrap();
                        let text = if order == "literal-first" {
                            format!("query {{ r: V({} = \"{}\", id = ${}){{ id }} }}", fld, s, s)
                        } else {
                            format!("query {{ r: V(id = ${}, {} = \"{}\"){{ id }} }}", s, fld, s)
                        };
                        acc.count(&format!("position/String/literal-equal-to-a-variable-name/{}", order), 1);
                        match db.query(&text, p) {
                            Ok(r) => {
                                let ids: Vec<String> = r["r"].as_array().map(|a| a.iter().filter_map(|x| x["id"].as_str().map(|s| s.to_string())).collect()).unwrap_or_default();
                                if ids != vec![id.clone()] {
                                    acc.violation(
                                        format!("C04/equality-filter-misses-the-row/String/literal-equal-to-a-variable-name/{}", order),
                                        witness("(field = \"name\", id = $name) does not return the row whose field holds the text and whose id is the value given for the variable", json!({"request": text, "returned": ids.len()})),
                                    );
                                    violated = true;
                                }
                            }
                            Err(e) => {
                                acc.violation(format!("C04/error-on-filter/String/literal-equal-to-a-variable-name/{}", order), witness("request failed", json!({"request": text, "error": e})));
                                violated = true;
                            }
                        }
                    }
                }
            }
            // search term and alias: must not break the statement
            if let Val::S(s) = &v {
                if s.len() < 200 {
                    let mut p = Parameters::new();
                    p.add("t", s.clone()).unwrap();
                    if let Err(e) = db.query("query { r: V(search($t)){ id } }", p) {
                        // FTS5 query syntax errors for terms with syntax characters are out of scope; engine
                        // errors of another nature are not
                        if e.starts_with("engine") && !e.contains("fts5") && !e.contains("syntax error") && !e.contains("unterminated") && !e.contains("unknown special query") && !e.contains("no such column") {
                            acc.violation("C04/engine-error-on-search-term", witness("search", json!(e)));
                            violated = true;
                        }
                    }
                }
            }
            let nontrivial = match &v {
                Val::S(s) => !classes(s).is_empty(),
                Val::I(i) => i.unsigned_abs() > (1u64 << 31),
                Val::F(f) => *f == 0.0 || f.abs() < 1e-300 || f.abs() > 1e300,
                _ => true,
            };
            if nontrivial {
                acc.nontrivial(format!("{}/{}/{}", v.ty(), position, v.class_key()));
            }
        }
        // default position: a model whose string default contains metacharacters
        for _ in 0..ctx.tier.pick(6, 12) {
            let d = loop {
                let s = rand_string(&mut rng);
                if s.len() < 100 {
                    break s;
                }
            };
            acc.count("position/String/default", 1);
            let witness = |why: &str, extra: Value| json!({"why": why, "position": "default", "default": d, "detail": extra});
            match Db::new(&model(&escape(&d))) {
                Err(e) => {
                    acc.count("default_refused_by_model_parser", 1);
                    let _ = e;
                }
                Ok(db2) => {
                    let mut p = Parameters::new();
                    p.add("s", "row without d".to_string()).unwrap();
                    // the row is written by a model version that does not know d yet: emulate with a raw mutation on s only
                    let r = db2.mutate("mutate { V{ s:$s } }", p);
                    if let Err(e) = r {
                        acc.violation("C04/error-with-default/write", witness("write", json!(e)));
                        violated = true;
                        continue;
                    }
                    // structure: filter on the default-filled field vs the same with a benign default
                    let benign = Db::new(&model("plain")).unwrap();
                    let qa = db2.compiled("query { r: V(d = $v){ id } }");
                    let qb = benign.compiled("query { r: V(d = $v){ id } }");
                    if let (Ok(a), Ok(b)) = (qa, qb) {
                        acc.count("structure_comparisons", 1);
                        if a != b {
                            acc.violation("C04/statement-structure-depends-on-a-default-value", witness("the SQL compiled for a filter on the field differs from the SQL compiled with a benign default: the default text is spliced into the statement", json!({"sql": a.0.chars().skip_while(|c| *c != 'W').take(260).collect::<String>()})));
                            violated = true;
                        }
                    }
                    let mut p = Parameters::new();
                    p.add("v", "zzz".to_string()).unwrap();
                    if let Err(e) = db2.query("query { r: V(d = $v){ id d } }", p) {
                        if e.starts_with("engine") {
                            acc.violation("C04/engine-error-with-default/filter", witness("filter on the default-filled field", json!(e)));
                            violated = true;
                        }
                    }
                    // the default reads back as written
                    if let Ok(r) = db2.query("query { r: V{ d } }", Parameters::new()) {
                        let got = r["r"][0]["d"].clone();
                        // rows written by this model version are filled with the default at write time
                        if got != json!(d) {
                            let mech = if d.contains('\\') || d.chars().any(|c| (c as u32) < 0x20) { "escape-in-the-default-literal-not-decoded" } else { "value" };
                            acc.violation(format!("C04/default-read-differs-from-default-written/{}", mech), witness("default round trip", json!({"read": got})));
                            violated = true;
                        }
                    }
                    if !classes(&d).is_empty() {
                        acc.nontrivial(format!("String/default/{}", classes(&d).join("+")));
                    }
                }
            }
        }
        acc.evaluations += n_values as u64;
        if !violated {
            acc.held(None);
        }
        if case % 8 == 0 {
            let v = rand_val(&mut rng);
            acc.sample(json!({"type": v.ty(), "literal": v.literal().chars().take(120).collect::<String>()}));
        }
    })
}
