//! C20 — Room synchronisation locks: exclusive, bounded, never lost.
//!
//! Service level: the real `RoomLockService` actor is driven on a current-thread tokio runtime by a
//! single driver task. The actor never suspends except on its empty inbox, so after the driver sends a
//! message and yields, the actor has processed everything queued: the message order *is* the schedule,
//! and can be enumerated. A shadow state built only from what crossed the boundary (requests and
//! releases sent, grants received) is checked after every step and after a final drain phase.
use crate::runner::{Acc, CaseFut, Ctx, PropDef, Tier};
use discret::verif::security::Uid;
use discret::verif::synchronisation::room_locking_service::RoomLockService;
use rand::Rng;
use serde_json::json;
use std::collections::{BTreeMap, BTreeSet, VecDeque};
use tokio::sync::mpsc;

pub static DEF: PropDef = PropDef {
    id: "C20",
    level: "exploration",
    rule: "message sequences over {request(peer, non-empty room set), unlock(room), end-of-connection(peer)} sent to the real RoomLockService on a current-thread runtime (message order = schedule); exhaustive up to the stated length for small (peers, rooms, limit), random longer ones beyond; a sequence is non-trivial when at least one request had to wait (room held by another connection or limit reached) and was granted later; distinct = distinct (configuration, sequence). Full-stack half (c20s.rs): a real Discret with 1-3 rooms and limit 1-2; harness-played member peers connect over the NewConnection seam, prove their identity, announce the rooms and answer the first query of every room synchronisation with the instance's own summary, the same after a delay, a failure, or the end of the connection; connections are ended and re-opened at random, on the same or a new circuit; the hooked event log (sync_begin / sync_end / cleanup_unlock per connection) must show no room synchronised by two connections at once, never more open synchronisations than the limit, every begun synchronisation ended once the connections are gone, and every begun synchronisation has ended at most 90 s after the last connection is gone, and a fresh connection on a fresh circuit is granted every room within 60 s",
    assumptions: &[
        "the lock service is an actor whose only suspension point is its empty inbox (checked: a sequence is replayed with extra yields and must give the same grants)",
        "releases are sent by the connection that holds the room, as the library's synchronisation task and connection clean-up do",
    ],
    cases: |t| configs(t).len() as u64 + stack_cases(t),
    shards: |t| t.pick(8, 16),
    case_budget_s: |t| t.pick(600, 7200),
    min_conclusive: |_| 4,
    run_case,
    finish: Some(miri_step),
    worker_threads: 1,
    tokio_per_case: false,
};

#[derive(Clone, Debug)]
enum Mode {
    /// every sequence of exactly `len` actions whose first action index is `first` (sharding)
    Exhaustive { len: usize, first: usize },
    Random { count: usize, len: usize },
}

#[derive(Clone, Debug)]
struct Config {
    peers: usize,
    rooms: usize,
    limit: usize,
    mode: Mode,
}

#[derive(Clone, Debug, PartialEq, Eq)]
enum Action {
    Request(usize, Vec<usize>),
    Unlock(usize),
    End(usize),
}

fn alphabet(peers: usize, rooms: usize) -> Vec<Action> {
    let mut v = Vec::new();
    for p in 0..peers {
        for mask in 1..(1usize << rooms) {
            let set: Vec<usize> = (0..rooms).filter(|r| mask & (1 << r) != 0).collect();
            v.push(Action::Request(p, set));
        }
    }
    for r in 0..rooms {
        v.push(Action::Unlock(r));
    }
    for p in 0..peers {
        v.push(Action::End(p));
    }
    v
}

fn configs(t: Tier) -> Vec<Config> {
    let mut v = Vec::new();
    // (peers, rooms, limit, exhaustive length quick, thorough)
    let grid: &[(usize, usize, usize, usize, usize)] = &[
        (1, 1, 1, 8, 10),
        (1, 2, 1, 7, 9),
        (1, 2, 2, 7, 9),
        (2, 1, 1, 7, 9),
        (2, 1, 2, 7, 9),
        (2, 2, 1, 6, 7),
        (2, 2, 2, 6, 7),
        (3, 1, 1, 6, 8),
        (1, 3, 2, 5, 7),
        (3, 2, 1, 5, 6),
        (3, 2, 2, 5, 6),
        (2, 3, 1, 5, 6),
        (2, 3, 2, 5, 6),
        (3, 3, 1, 4, 5),
        (3, 3, 2, 4, 5),
    ];
    for (p, r, l, lq, lt) in grid {
        let len = t.pick(*lq, *lt);
        let n = alphabet(*p, *r).len();
        for first in 0..n {
            // all lengths 1..=len are covered because every prefix of a sequence is checked step by step
            v.push(Config {
                peers: *p,
                rooms: *r,
                limit: *l,
                mode: Mode::Exhaustive { len, first },
            });
        }
    }
    let randoms = t.pick(16, 64);
    for i in 0..randoms {
        v.push(Config {
            peers: 1 + i % 3,
            rooms: 1 + (i / 3) % 3,
            limit: 1 + (i / 9) % 2,
            mode: Mode::Random {
                count: t.pick(150, 2000),
                len: t.pick(80, 200),
            },
        });
    }
    v
}

fn room_uid(r: usize) -> Uid {
    let mut u = [0u8; 16];
    u[0] = 0xA0 + r as u8;
    u
}
fn room_index(u: &Uid) -> usize {
    (u[0] - 0xA0) as usize
}
fn circuit(p: usize) -> [u8; 32] {
    let mut c = [0u8; 32];
    c[0] = p as u8 + 1;
    c
}

struct Conn {
    rx: Option<mpsc::UnboundedReceiver<Uid>>,
    tx: mpsc::UnboundedSender<Uid>,
    /// rooms requested on the current connection and not granted since
    pending: BTreeSet<usize>,
    /// rooms requested on earlier connections of the same peer (same circuit) and never granted: the
    /// service has no way to withdraw them, it may still grant them (to the peer's current channel) or
    /// may have discarded them when it found the channel closed
    stale: BTreeSet<usize>,
    requests: BTreeMap<usize, u64>,
    grants: BTreeMap<usize, u64>,
}
impl Conn {
    fn new() -> Self {
        let (tx, rx) = mpsc::unbounded_channel();
        Self {
            rx: Some(rx),
            tx,
            pending: BTreeSet::new(),
            stale: BTreeSet::new(),
            requests: BTreeMap::new(),
            grants: BTreeMap::new(),
        }
    }
}

struct Outcome {
    violation: Option<(String, String)>,
    waited_then_granted: bool,
    grants: Vec<(usize, usize, usize)>, // (step, peer, room)
    max_held: usize,
}

async fn settle(yields: usize) {
    for _ in 0..yields {
        tokio::task::yield_now().await;
    }
}

/// runs one sequence against a fresh service; `yields` = number of yields used as barrier
async fn run_sequence(cfg: &Config, seq: &[Action], yields: usize) -> Outcome {
    let service = RoomLockService::start(cfg.limit);
    let mut conns: Vec<Conn> = (0..cfg.peers).map(|_| Conn::new()).collect();
    // shadow: room -> holder peer, from grant until the next unlock(room) is sent
    let mut held: BTreeMap<usize, usize> = BTreeMap::new();
    let mut out = Outcome {
        violation: None,
        waited_then_granted: false,
        grants: Vec::new(),
        max_held: 0,
    };
    let mut waited: BTreeSet<(usize, usize)> = BTreeSet::new();

    macro_rules! collect {
        ($step:expr) => {
            for p in 0..cfg.peers {
                loop {
                    let got = match conns[p].rx.as_mut() {
                        Some(rx) => rx.try_recv().ok(),
                        None => None,
                    };
                    let Some(uid) = got else { break };
                    let r = room_index(&uid);
                    out.grants.push(($step, p, r));
                    *conns[p].grants.entry(r).or_insert(0) += 1;
                    if let Some(h) = held.get(&r) {
                        out.violation.get_or_insert((
                            "C20/exclusive/granted-while-held".to_string(),
                            format!("step {}: room {} granted to peer {} while held by peer {}", $step, r, p, h),
                        ));
                    }
                    let was_pending = conns[p].pending.remove(&r);
                    let was_stale = conns[p].stale.remove(&r);
                    if !was_pending && !was_stale {
                        out.violation.get_or_insert((
                            "C20/once-per-request/grant-without-pending-request".to_string(),
                            format!("step {}: room {} granted to peer {} which has no ungranted request for it", $step, r, p),
                        ));
                    }
                    if waited.remove(&(p, r)) {
                        out.waited_then_granted = true;
                    }
                    held.insert(r, p);
                    if held.len() > cfg.limit {
                        out.violation.get_or_insert((
                            "C20/bound/more-rooms-than-limit".to_string(),
                            format!("step {}: {} rooms held, limit {}", $step, held.len(), cfg.limit),
                        ));
                    }
                    out.max_held = out.max_held.max(held.len());
                }
            }
        };
    }

    for (step, a) in seq.iter().enumerate() {
        match a {
            Action::Request(p, rooms) => {
                let q: VecDeque<Uid> = rooms.iter().map(|r| room_uid(*r)).collect();
                for r in rooms {
                    conns[*p].pending.insert(*r);
                    conns[*p].stale.remove(r);
                    *conns[*p].requests.entry(*r).or_insert(0) += 1;
                }
                let tx = conns[*p].tx.clone();
                service.request_locks(circuit(*p), q, tx).await;
            }
            Action::Unlock(r) => {
                // sent by whoever holds it (or by nobody in particular when it is not held)
                held.remove(r);
                service.unlock(room_uid(*r)).await;
            }
            Action::End(p) => {
                // the connection ends: it first reads the grants already delivered to it, stops
                // listening, then releases what it holds (what the library's clean-up does)
                settle(yields).await;
                collect!(step);
                conns[*p].rx = None;
                let mine: Vec<usize> = held
                    .iter()
                    .filter(|(_, h)| **h == *p)
                    .map(|(r, _)| *r)
                    .collect();
                for r in mine {
                    held.remove(&r);
                    service.unlock(room_uid(r)).await;
                }
                // a later request of this peer (same circuit) is a new connection with a new channel;
                // what the old connection asked for and never got may still be granted to the peer
                let mut fresh = Conn::new();
                fresh.stale = conns[*p].stale.clone();
                fresh.stale.extend(conns[*p].pending.iter().copied());
                fresh.requests = conns[*p].requests.clone();
                fresh.grants = conns[*p].grants.clone();
                let old = std::mem::replace(&mut conns[*p], fresh);
                drop(old);
            }
        }
        settle(yields).await;
        collect!(step);
        // requests that are still pending after the service has settled had to wait
        for p in 0..cfg.peers {
            for r in conns[p].pending.iter() {
                waited.insert((p, *r));
            }
        }
        if out.violation.is_some() {
            return out;
        }
    }
    // drain phase: release everything held until no grant arrives; bounded progress
    let mut rounds = 0;
    loop {
        rounds += 1;
        let rooms: Vec<usize> = held.keys().copied().collect();
        if rooms.is_empty() {
            break;
        }
        for r in rooms {
            held.remove(&r);
            service.unlock(room_uid(r)).await;
            settle(yields).await;
            collect!(seq.len() + rounds);
        }
        if out.violation.is_some() {
            return out;
        }
        if rounds > 200 {
            out.violation.get_or_insert((
                "C20/progress/drain-does-not-terminate".to_string(),
                "more than 200 drain rounds".to_string(),
            ));
            return out;
        }
    }
    settle(yields * 2 + 2).await;
    collect!(seq.len() + rounds + 1);
    if !held.is_empty() {
        // something was granted after the last release round: release again
        let rooms: Vec<usize> = held.keys().copied().collect();
        for r in rooms {
            held.remove(&r);
            service.unlock(room_uid(r)).await;
            settle(yields).await;
            collect!(seq.len() + rounds + 2);
        }
    }
    for p in 0..cfg.peers {
        if !conns[p].pending.is_empty() {
            out.violation.get_or_insert((
                "C20/progress/requested-room-never-granted".to_string(),
                format!(
                    "after every granted room was released and the service settled, peer {} still waits for rooms {:?}",
                    p, conns[p].pending
                ),
            ));
        }
        for (r, g) in &conns[p].grants {
            let req = conns[p].requests.get(r).copied().unwrap_or(0);
            if *g > req {
                out.violation.get_or_insert((
                    "C20/once-per-request/more-grants-than-requests".to_string(),
                    format!("peer {} room {}: {} grants for {} requests", p, r, g, req),
                ));
            }
        }
    }
    out
}

fn describe(cfg: &Config, seq: &[Action]) -> serde_json::Value {
    json!({
        "peers": cfg.peers, "rooms": cfg.rooms, "limit": cfg.limit,
        "sequence": seq.iter().map(|a| match a {
            Action::Request(p, r) => format!("request(p{}, {:?})", p, r),
            Action::Unlock(r) => format!("unlock({})", r),
            Action::End(p) => format!("end(p{})", p),
        }).collect::<Vec<_>>()
    })
}

fn key(cfg: &Config, seq: &[Action], alpha: &[Action]) -> String {
    let mut h = blake3::Hasher::new();
    h.update(&[cfg.peers as u8, cfg.rooms as u8, cfg.limit as u8]);
    for a in seq {
        let i = alpha.iter().position(|x| x == a).unwrap();
        h.update(&[i as u8]);
    }
    hex::encode(&h.finalize().as_bytes()[0..8])
}

/// number of full-stack cases (exit paths of the synchronisation task, end of connection): see c20s.rs
fn stack_cases(t: Tier) -> u64 {
    t.pick(24, 600)
}

fn run_case<'a>(ctx: &'a Ctx, case: u64, acc: &'a mut Acc) -> CaseFut<'a> {
    Box::pin(async move {
        let cfgs = configs(ctx.tier);
        if case as usize >= cfgs.len() {
            crate::props::c20s::run(ctx, case, acc);
            return;
        }
        let cfg = cfgs[case as usize].clone();
        let alpha = alphabet(cfg.peers, cfg.rooms);
        let rt = tokio::runtime::Builder::new_current_thread()
            .build()
            .unwrap();
        let mut sequences: u64 = 0;
        let mut violated = false;
        let check = |seq: &[Action], acc: &mut Acc, sequences: &mut u64| -> bool {
            *sequences += 1;
            let out = rt.block_on(run_sequence(&cfg, seq, 2));
            acc.count("grants_observed", out.grants.len() as u64);
            acc.count("steps_checked", seq.len() as u64);
            if out.max_held as usize == cfg.limit {
                acc.count("sequences_reaching_limit", 1);
            }
            if let Some((sig, why)) = out.violation {
                // confirm with a much larger barrier so that a scheduling artefact of the harness
                // cannot be reported as a violation
                let again = rt.block_on(run_sequence(&cfg, seq, 12));
                match again.violation {
                    Some((sig2, _)) if sig2 == sig => {
                        let mut d = describe(&cfg, seq);
                        d["why"] = json!(why);
                        d["grants(step,peer,room)"] = json!(again.grants);
                        acc.violation(sig, d);
                        return true;
                    }
                    _ => {
                        acc.inconclusive("violation not reproduced with a larger barrier");
                        return false;
                    }
                }
            }
            if out.waited_then_granted && acc.nontrivial.len() < 60_000 {
                acc.nontrivial(key(&cfg, seq, &alpha));
            }
            if *sequences % 5000 == 1 {
                let mut d = describe(&cfg, seq);
                d["grants(step,peer,room)"] = json!(out.grants);
                acc.sample(d);
                // barrier validity probe: same sequence, more yields, same grants
                let again = rt.block_on(run_sequence(&cfg, seq, 9));
                acc.count("barrier_probes", 1);
                if again.grants != out.grants {
                    acc.count("barrier_probe_mismatch", 1);
                }
            }
            false
        };
        match cfg.mode {
            Mode::Exhaustive { len, first } => {
                // iterate over all sequences of length `len` starting with alphabet[first]
                let n = alpha.len();
                let mut idx = vec![0usize; len];
                idx[0] = first;
                'outer: loop {
                    let seq: Vec<Action> = idx.iter().map(|i| alpha[*i].clone()).collect();
                    if check(&seq, acc, &mut sequences) {
                        violated = true;
                        if acc.violations.len() >= 8 {
                            break;
                        }
                    }
                    // increment positions 1.. (position 0 is fixed)
                    let mut pos = len;
                    loop {
                        if pos == 1 {
                            break 'outer;
                        }
                        pos -= 1;
                        idx[pos] += 1;
                        if idx[pos] < n {
                            break;
                        }
                        idx[pos] = 0;
                    }
                    if len == 1 {
                        break;
                    }
                }
                // the run as a whole also samples random sequences and connection churn: it is not an exhaustive run; the
                // configurations whose sequences were all enumerated are listed in the evidence instead
                acc.count("configurations_enumerated_completely", 1);
                acc.aux(json!({"enumerated_completely": {"peers": cfg.peers, "rooms": cfg.rooms, "limit": cfg.limit, "length": len, "sequences": sequences}}));
                acc.distinct(
                    "exhaustive_configs(peers,rooms,limit,len)",
                    format!("{},{},{},{}", cfg.peers, cfg.rooms, cfg.limit, len),
                );
            }
            Mode::Random { count, len } => {
                let mut rng = ctx.rng(case);
                for _ in 0..count {
                    let seq: Vec<Action> = (0..len)
                        .map(|_| {
                            // bias towards requests and unlocks of held rooms
                            let i = rng.gen_range(0..alpha.len());
                            alpha[i].clone()
                        })
                        .collect();
                    if check(&seq, acc, &mut sequences) {
                        violated = true;
                        break;
                    }
                }
                acc.distinct(
                    "random_configs(peers,rooms,limit,len)",
                    format!("{},{},{},{}", cfg.peers, cfg.rooms, cfg.limit, len),
                );
            }
        }
        acc.evaluations += sequences.saturating_sub(1);
        acc.count("sequences", sequences);
        if !violated {
            acc.held(None);
        }
        drop(rt);
    })
}

/// the random sequences of this property replayed by the Miri crate (/verif/miri): returns (sequences, grants,
/// first violation)
pub fn miri_replay(seed: u64, count: usize) -> (usize, usize, Option<String>) {
    use rand::SeedableRng;
    let mut rng = rand::rngs::StdRng::seed_from_u64(seed);
    let rt = tokio::runtime::Builder::new_current_thread().build().unwrap();
    let mut grants = 0;
    for i in 0..count {
        let cfg = Config { peers: rng.gen_range(1..=3), rooms: rng.gen_range(1..=3), limit: rng.gen_range(1..=2), mode: Mode::Random { count: 1, len: 10 } };
        let alpha = alphabet(cfg.peers, cfg.rooms);
        let seq: Vec<Action> = (0..rng.gen_range(4..12)).map(|_| alpha[rng.gen_range(0..alpha.len())].clone()).collect();
        let out = rt.block_on(run_sequence(&cfg, &seq, 3));
        grants += out.grants.len();
        if let Some((sig, why)) = out.violation {
            return (i + 1, grants, Some(format!("{}: {}", sig, why)));
        }
    }
    (count, grants, None)
}

/// thorough tier: the random sequences of the lock service (and the digest / key import code of C06 and C14) are
/// replayed under Miri, the undefined-behaviour and data-race interpreter. A report is a violation; a build
/// problem or the expiry of the allowance is recorded as inconclusive, never as a violation.
fn miri_step(ctx: &Ctx, acc: &mut Acc) {
    if ctx.tier != Tier::Thorough || std::env::var("DV_NO_MIRI").is_ok() {
        return;
    }
    let root = std::env::var("VERIF_ROOT").unwrap_or_else(|_| "/verif".to_string());
    let manifest = format!("{}/miri/Cargo.toml", root);
    if !std::path::Path::new(&manifest).exists() {
        acc.aux_reports.insert(0, json!({"miri": "crate not found", "verdict": "inconclusive"}));
        return;
    }
    let start = std::time::Instant::now();
    let out = std::process::Command::new("timeout")
        .arg("5400")
        .arg("cargo")
        .arg("+nightly")
        .arg("miri")
        .arg("run")
        .arg("--offline")
        .arg("--manifest-path")
        .arg(&manifest)
        .arg("--")
        .arg(ctx.seed.to_string())
        .arg("20")
        .env("CARGO_NET_OFFLINE", "true")
        .output();
    match out {
        Err(e) => acc.aux_reports.insert(0, json!({"miri": format!("cannot run: {}", e), "verdict": "inconclusive"})),
        Ok(o) => {
            let stdout = String::from_utf8_lossy(&o.stdout).to_string();
            let stderr = String::from_utf8_lossy(&o.stderr).to_string();
            let lines: Vec<&str> = stdout.lines().filter(|l| l.starts_with("MIRI-")).collect();
            let ub = stderr.contains("Undefined Behavior") || stderr.contains("Data race detected") || stderr.contains("error: unsupported operation");
            if ub && !stderr.contains("unsupported operation") {
                let first = stderr.lines().find(|l| l.contains("Undefined Behavior") || l.contains("Data race")).unwrap_or("").to_string();
                acc.violation(
                    "C20/undefined-behaviour-or-data-race-reported-by-miri",
                    json!({"report": first, "stderr_tail": stderr.lines().rev().take(30).collect::<Vec<_>>().into_iter().rev().collect::<Vec<_>>()}),
                );
            } else if o.status.success() && !lines.is_empty() {
                acc.count("miri_runs", 1);
                acc.aux_reports.insert(0, json!({"miri": lines, "wall_s": start.elapsed().as_secs(), "verdict": "no report"}));
                if lines.iter().any(|l| l.starts_with("MIRI-C20") && !l.contains("violation=None")) {
                    acc.violation("C20/lock-service-violation-under-miri", json!({"lines": lines}));
                }
            } else {
                acc.aux_reports.insert(0, json!({"miri": "did not complete", "status": o.status.to_string(), "wall_s": start.elapsed().as_secs(), "stderr_tail": stderr.lines().rev().take(5).collect::<Vec<_>>(), "verdict": "inconclusive"}));
            }
        }
    }
}
