//! C13 — Writes are atomic and durable.
//!
//! A child process runs a deterministic workload (multi-row mutations, updates, deletions, a room
//! mutation, synchronised batches, recomputation; groups of 1..N concurrent requests so that the writer
//! builds multi-request transactions) with one failpoint of the write path armed at its k-th hit, either
//! aborting the process or injecting a statement error. Every request is bracketed in an acknowledgement
//! log (START before the call, ACK / FAIL after the reply). The parent then reopens the same folder with
//! the library and checks, per request, all-or-nothing, durability of what was acknowledged, absence of
//! any effect of what was reported failed, that later requests still work after an injected error, and
//! that the daily log is consistent with the stored rows after the restart.
use crate::peer::{small_config, Identity, Peer};
use crate::props::c09::check_log;
use crate::runner::{Acc, CaseFut, Ctx, PropDef};
use crate::snapshot::{read_snapshot, Snapshot};
use crate::sync::{serve_batch, Batch};
use crate::util::{b64, clock_set, clock_step, unb64, DAY, T0};
use crate::world::{open_room_spec, RoomEdit, RoomHandle, MODEL};
use discret::verif::database::edge::Edge;
use discret::verif::database::node::Node;
use discret::verif::hooks::{self, FailAction};
use discret::verif::security::Uid;
use discret::{Parameters, ParametersAdd};
use rand::rngs::StdRng;
use rand::{Rng, SeedableRng};
use serde_json::{json, Value};
use std::collections::{BTreeMap, HashMap, HashSet};
use std::io::Write;
use std::path::Path;
use std::process::{Command, Stdio};
use std::sync::Arc;
use std::time::Duration;

pub static DEF: PropDef = PropDef {
    id: "C13",
    level: "exploration",
    rule: "per case a child process runs a seeded workload of request groups (1..4 concurrent requests: multi-row mutation with references, update adding a row and a reference, deletion, room mutation adding a user, synchronised batch of signed rows and references through the library's own pull, recomputation) with one failpoint armed at its k-th hit after a warm-up: after_begin, before_msg, before_marks, before_commit, commit, after_commit, before_ack, after_ack, marks_write, node_write, edge_write; action abort (process death) or, where a statement can fail, injected error. Requests are bracketed START / ACK|FAIL in an append-only log. The parent reopens the folder with the library (which requests recomputation), waits for it and checks per request: acknowledged => every effect present; reported failed or never started => no effect; in flight at the death => all effects or none; after an injected error every later request is acknowledged; an acknowledged write is visible to the next query in the child; the stored daily log equals an independent recomputation over the stored rows. non-trivial = the failpoint fired; distinct = (failpoint, action, kinds of requests in flight) Every run that reaches its end finishes with a pipelined stream and with a write and a recomputation request placed in one transaction.",
    assumptions: &[
        "process death only: the operating system and the disk survive (WAL, synchronous=NORMAL), power loss is out of reach",
        "a synchronised batch is several write requests (rows, then references): all-or-nothing is checked per request, as the property states it",
    ],
    cases: |t| t.pick(132, 1500),
    shards: |t| t.pick(11, 16),
    case_budget_s: |_| 240,
    min_conclusive: |t| t.pick(30, 700),
    run_case,
    finish: None,
    worker_threads: 4,
    tokio_per_case: true,
};

const POINTS: &[(&str, bool, u64)] = &[
    // name, can inject an error, maximum k
    ("after_begin", false, 12),
    ("before_msg", false, 24),
    ("before_marks", false, 12),
    ("before_commit", false, 12),
    ("commit", true, 12),
    ("after_commit", false, 12),
    ("before_ack", false, 12),
    ("after_ack", false, 12),
    ("marks_write", true, 12),
    ("node_write", true, 40),
    ("edge_write", true, 25),
];

#[derive(Clone, Debug)]
enum Kind {
    Create { rows: usize },
    Update { target: usize },
    Delete { target: usize },
    Sync { rows: usize },
    RoomEdit,
    Recompute,
    /// several single-row requests pipelined on the mutation stream (which asks for recomputation when it ends)
    Stream { rows: usize },
    /// a write and a recomputation request placed, in this order, in one transaction (the writer is kept busy meanwhile)
    WriteThenRecompute,
}
impl Kind {
    fn name(&self) -> &'static str {
        match self {
            Kind::Create { .. } => "multi-row-mutation",
            Kind::Update { .. } => "update-adding-a-row",
            Kind::Delete { .. } => "deletion",
            Kind::Sync { .. } => "synchronised-batch",
            Kind::RoomEdit => "room-mutation",
            Kind::Recompute => "recomputation",
            Kind::Stream { .. } => "pipelined-stream",
            Kind::WriteThenRecompute => "write-then-recomputation-in-one-transaction",
        }
    }
}

#[derive(Clone, Debug)]
struct OpSpec {
    i: usize,
    kind: Kind,
}

const WARMUP: usize = 5;

/// the workload is a pure function of the seed: the child runs it, the parent re-derives it
fn gen_groups(seed: u64) -> Vec<Vec<OpSpec>> {
    let mut rng = StdRng::seed_from_u64(seed ^ 0xC13);
    let mut groups = Vec::new();
    let mut i = 0;
    let mut free_targets: Vec<usize> = Vec::new();
    for _ in 0..WARMUP {
        groups.push(vec![OpSpec { i, kind: Kind::Create { rows: 2 } }]);
        free_targets.push(i);
        i += 1;
    }
    let n_groups = rng.gen_range(6..12);
    for _ in 0..n_groups {
        let size = [1, 1, 2, 3, 4][rng.gen_range(0..5)];
        let mut g = Vec::new();
        let mut room_edit_used = false;
        let mut created_here = Vec::new();
        for _ in 0..size {
            let r = rng.gen_range(0..100);
            let kind = if r < 35 {
                created_here.push(i);
                Kind::Create { rows: rng.gen_range(1..=4) }
            } else if r < 50 && !free_targets.is_empty() {
                Kind::Update { target: free_targets.remove(rng.gen_range(0..free_targets.len())) }
            } else if r < 65 && !free_targets.is_empty() {
                Kind::Delete { target: free_targets.remove(rng.gen_range(0..free_targets.len())) }
            } else if r < 78 {
                Kind::Sync { rows: rng.gen_range(1..=4) }
            } else if r < 96 && !room_edit_used {
                room_edit_used = true;
                Kind::RoomEdit
            } else {
                Kind::Recompute
            };
            g.push(OpSpec { i, kind });
            i += 1;
        }
        // a recomputation request queued right behind writes ends up in their transaction
        if !g.is_empty() && rng.gen_bool(0.4) {
            g.push(OpSpec { i, kind: Kind::Recompute });
            i += 1;
        }
        free_targets.extend(created_here);
        groups.push(g);
    }
    // the last writes of the history touch an entity nothing else marks afterwards
    groups.push(vec![OpSpec { i, kind: Kind::Stream { rows: rng.gen_range(2..=4) } }]);
    i += 1;
    groups.push(vec![OpSpec { i, kind: Kind::WriteThenRecompute }]);
    // last of all a room mutation on its own: in the runs that inject an error the failpoint is armed again just before
    // it, so that a room mutation reported failed is part of every such run
    i += 1;
    groups.push(vec![OpSpec { i, kind: Kind::RoomEdit }]);
    groups
}

struct AckLog {
    f: std::fs::File,
}
impl AckLog {
    fn line(&mut self, s: &str) {
        let _ = writeln!(self.f, "{}", s);
        let _ = self.f.flush();
    }
}

fn tag_of(n: &Node) -> Option<String> {
    let v: Value = serde_json::from_str(n._json.as_deref()?).ok()?;
    v.get("32")?.as_str().map(|s| s.to_string())
}

pub fn child_main(args: &[String]) {
    // args: seed dir failpoint k action
    unsafe {
        let lim = libc::rlimit { rlim_cur: 0, rlim_max: 0 };
        libc::setrlimit(libc::RLIMIT_CORE, &lim);
    }
    let seed: u64 = args[0].parse().unwrap();
    let dir = std::path::PathBuf::from(&args[1]);
    let fp = args[2].clone();
    let k: u64 = args[3].parse().unwrap();
    let action = if args[4] == "abort" { FailAction::Abort } else { FailAction::Error };
    crate::util::install_panic_counter();
    let rt = tokio::runtime::Builder::new_multi_thread().worker_threads(4).enable_all().build().unwrap();
    rt.block_on(child(seed, dir, fp, k, action));
    // library threads are still running: leave without running the exit handlers of the C libraries under them
    unsafe { libc::_exit(0) }
}

async fn child(seed: u64, dir: std::path::PathBuf, fp: String, k: u64, action: FailAction) {
    clock_set(T0 + 3 * DAY + 1000);
    clock_step(1);
    let f = std::fs::OpenOptions::new().create(true).append(true).open(dir.join("ack.log")).unwrap();
    let log = Arc::new(std::sync::Mutex::new(AckLog { f }));
    let peer = Arc::new(Peer::start("p", seed, 0, MODEL, &dir.join("db"), small_config()).await.unwrap());
    let member = Arc::new(Identity::new(seed, 3));
    let spec = open_room_spec(&[peer.id.vkey.clone(), member.vkey.clone()], &["Person", "Pet", "ns.Thing"], true);
    let room = peer.create_room(&spec).await.unwrap();
    let room_id = room.id;
    log.lock().unwrap().line(&format!("READY {}", json!({"room": b64(&room.id)})));
    let handle = Arc::new(tokio::sync::Mutex::new(room));
    let ids: Arc<std::sync::Mutex<HashMap<usize, String>>> = Arc::new(std::sync::Mutex::new(HashMap::new()));
    let groups = gen_groups(seed);
    for (gi, group) in groups.iter().enumerate() {
        if gi == WARMUP {
            peer.barrier().await;
            hooks::arm(&fp, k, action.clone());
            log.lock().unwrap().line("ARMED");
        }
        if gi + 1 == groups.len() && action == FailAction::Error {
            hooks::arm(&fp, 1, FailAction::Error);
        }
        for op in group {
            let target = match &op.kind {
                Kind::Update { target } | Kind::Delete { target } => ids.lock().unwrap().get(target).cloned().unwrap_or_default(),
                _ => String::new(),
            };
            log.lock().unwrap().line(&format!("START {} {}", op.i, target));
        }
        let futs = group.iter().map(|op| {
            let peer = peer.clone();
            let member = member.clone();
            let handle = handle.clone();
            let ids = ids.clone();
            let log = log.clone();
            let op = op.clone();
            async move {
                let res = perform(&peer, &member, room_id, &handle, &ids, &op, seed).await;
                match &res {
                    Ok(v) => {
                        if let Some(id) = v.get("id").and_then(|x| x.as_str()) {
                            ids.lock().unwrap().insert(op.i, id.to_string());
                        }
                        log.lock().unwrap().line(&format!("ACK {} {}", op.i, v));
                    }
                    Err(e) if e == "SKIP" => log.lock().unwrap().line(&format!("SKIP {}", op.i)),
                    Err(e) => log.lock().unwrap().line(&format!("FAIL {} {}", op.i, e.replace('\n', " ").chars().take(200).collect::<String>())),
                }
                (op, res)
            }
        });
        let results = futures::future::join_all(futs).await;
        // an acknowledged write is visible to the next query; a room mutation reported failed must not have changed the
        // room the instance decides with
        for (op, res) in results {
            if let (Kind::RoomEdit, Err(e)) = (&op.kind, &res) {
                if e != "SKIP" {
                    let key = Identity::new(seed, 100 + op.i as u64).vkey;
                    if let Some(r) = peer.room(room_id).await {
                        let present = r.authorisations.values().any(|a| a.users.contains_key(&key));
                        if present {
                            log.lock().unwrap().line(&format!("ROOM-LEAK {} the user added by a room mutation reported failed is in the room held in memory", op.i));
                        }
                    }
                }
            }
            if res.is_err() {
                continue;
            }
            let tag = match op.kind {
                Kind::Create { .. } => format!("op{}-0", op.i),
                Kind::Update { .. } => format!("op{}-u", op.i),
                Kind::Sync { .. } => format!("op{}-s0", op.i),
                _ => continue,
            };
            let mut p = Parameters::new();
            p.add("n", tag.clone()).unwrap();
            let q = peer.query("query { Person(name = $n){ id } }", Some(p)).await;
            let seen = q.as_ref().map(|s| s.contains("\"id\"")).unwrap_or(false);
            if !seen {
                log.lock().unwrap().line(&format!("RYW-MISS {} {}", op.i, q.unwrap_or_else(|e| e).chars().take(100).collect::<String>()));
            }
        }
    }
    log.lock().unwrap().line(&format!("FIRED {}", hooks::fired()));
    log.lock().unwrap().line("DONE");
}

async fn perform(
    peer: &Peer,
    member: &Identity,
    room: Uid,
    handle: &tokio::sync::Mutex<RoomHandle>,
    ids: &std::sync::Mutex<HashMap<usize, String>>,
    op: &OpSpec,
    seed: u64,
) -> Result<Value, String> {
    let i = op.i;
    match &op.kind {
        Kind::Create { rows } => {
            let mut p = Parameters::new();
            p.add("r", b64(&room)).unwrap();
            let mut body = format!("room_id:$r name:\"op{}-0\" ", i);
            match rows {
                2 => body.push_str(&format!("parents:[{{name:\"op{}-1\"}}] ", i)),
                3 => body.push_str(&format!("parents:[{{name:\"op{}-1\"}},{{name:\"op{}-2\"}}] ", i, i)),
                4 => body.push_str(&format!("parents:[{{name:\"op{}-1\"}},{{name:\"op{}-2\"}}] pet:{{name:\"op{}-p\"}} ", i, i, i)),
                _ => {}
            }
            let r = peer.mutate(&format!("mutate {{ Person{{ {} }} }}", body), Some(p)).await?;
            let v: Value = serde_json::from_str(&r).map_err(|e| e.to_string())?;
            let id = v["Person"]["id"].as_str().unwrap_or("").to_string();
            Ok(json!({"id": id}))
        }
        Kind::Update { target } => {
            let id = ids.lock().unwrap().get(target).cloned();
            let Some(id) = id else { return Err("SKIP".into()) };
            let mut p = Parameters::new();
            p.add("id", id.clone()).unwrap();
            p.add("r", b64(&room)).unwrap();
            peer.mutate(&format!("mutate {{ Person{{ id:$id room_id:$r name:\"op{}-u\" parents:[{{name:\"op{}-1\"}}] }} }}", i, i), Some(p)).await?;
            Ok(json!({"target": id}))
        }
        Kind::Delete { target } => {
            let id = ids.lock().unwrap().get(target).cloned();
            let Some(id) = id else { return Err("SKIP".into()) };
            let mut p = Parameters::new();
            p.add("id", id.clone()).unwrap();
            peer.delete("delete { Person{ $id } }", Some(p)).await?;
            Ok(json!({"target": id}))
        }
        Kind::Sync { rows } => {
            let mut rng = StdRng::seed_from_u64(seed ^ (i as u64) << 8);
            let now = discret::verif::date_utils::now();
            let mut batch = Batch::default();
            for j in 0..*rows {
                let mut id = [0u8; 16];
                rng.fill(&mut id);
                let mut n = Node { id, room_id: Some(room), cdate: now, mdate: now, _entity: "0".into(), _json: Some(format!("{{\"32\":\"op{}-s{}\"}}", i, j)), _binary: None, verifying_key: vec![], _signature: vec![], _local_id: None };
                n.sign(&member.signing).map_err(|e| e.to_string())?;
                batch.nodes.push(n);
            }
            for j in 1..*rows {
                let mut e = Edge { src: batch.nodes[0].id, src_entity: "0".into(), label: "34".into(), dest: batch.nodes[j].id, cdate: now, verifying_key: vec![], signature: vec![] };
                e.sign(&member.signing).map_err(|e| e.to_string())?;
                batch.edges.push(e);
            }
            let st = serve_batch(peer, room, &batch, &mut rng, None).await?;
            match st.error {
                Some(e) => Err(e),
                None => Ok(json!({"rows": rows, "transferred": st.transferred()})),
            }
        }
        Kind::RoomEdit => {
            let key = Identity::new(seed, 100 + i as u64).vkey;
            let mut h = handle.lock().await;
            peer.edit_room(&mut h, &RoomEdit::User(0, key.clone(), true)).await?;
            Ok(json!({"key": b64(&key)}))
        }
        Kind::Recompute => {
            peer.db.compute_daily_log().await;
            Ok(json!({}))
        }
        Kind::WriteThenRecompute => {
            let writer = peer.db.db.writer.clone();
            let busy = tokio::spawn(async move {
                let _ = writer.write(Box::new(crate::peer::Busy(60))).await;
            });
            tokio::time::sleep(Duration::from_millis(10)).await;
            let mut p = Parameters::new();
            p.add("r", b64(&room)).unwrap();
            let text = format!("mutate {{ ns.Thing{{ room_id:$r label:\"op{}-0\" }} }}", i);
            let fut = peer.mutate(&text, Some(p));
            tokio::pin!(fut);
            // let the request reach the writer's buffer, then queue the recomputation behind it
            let early = tokio::time::timeout(Duration::from_millis(25), &mut fut).await;
            peer.db.compute_daily_log().await;
            let r = match early {
                Ok(r) => r,
                Err(_) => fut.await,
            };
            let _ = busy.await;
            r.map(|_| json!({}))
        }
        Kind::Stream { rows } => {
            let (tx, mut rx) = peer.db.mutation_stream();
            for j in 0..*rows {
                let mut p = Parameters::new();
                p.add("r", b64(&room)).unwrap();
                let _ = tx.send((format!("mutate {{ Pet{{ room_id:$r name:\"op{}-t{}\" }} }}", i, j), Some(p))).await;
            }
            let mut ok = 0;
            let mut err = None;
            for _ in 0..*rows {
                match rx.recv().await {
                    Some(Ok(_)) => ok += 1,
                    Some(Err(e)) => err = Some(e.to_string()),
                    None => err = Some("stream closed".to_string()),
                }
            }
            drop(tx);
            match err {
                None => Ok(json!({"acknowledged": ok})),
                Some(e) => Err(e),
            }
        }
    }
}

#[derive(Default, Debug)]
struct Status {
    started: bool,
    acked: Option<Value>,
    failed: Option<String>,
    skipped: bool,
    target: Option<String>,
}

/// observations of the effects of one request in the reopened database
fn observe(op: &OpSpec, st: &Status, s: &Snapshot, tags: &HashMap<String, Uid>, room_users: &HashSet<String>, seed: u64) -> Vec<(String, bool)> {
    let i = op.i;
    let has_edge = |a: &Uid, b: &Uid| s.edges.keys().any(|(src, _, dest)| src == a && dest == b);
    let mut o = Vec::new();
    match &op.kind {
        Kind::Create { rows } => {
            // the root can have been renamed or deleted by a later request: it is identified by id when known
            let root = st.acked.as_ref().and_then(|v| v["id"].as_str()).map(|x| unb64(x)).and_then(|v| <[u8; 16]>::try_from(v.as_slice()).ok());
            let root_id = root.or_else(|| tags.get(&format!("op{}-0", i)).copied());
            let deleted = root.map(|r| s.node_del.keys().any(|k| k.2 == r)).unwrap_or(false);
            let root_present = match root {
                Some(r) => s.nodes.keys().any(|k| k.0 == r) || deleted,
                None => root_id.is_some(),
            };
            o.push(("root row".to_string(), root_present));
            let mut children = vec![];
            if *rows >= 2 {
                children.push(format!("op{}-1", i));
            }
            if *rows >= 3 {
                children.push(format!("op{}-2", i));
            }
            if *rows >= 4 {
                children.push(format!("op{}-p", i));
            }
            for c in children {
                let cid = tags.get(&c);
                o.push((format!("row {}", c), cid.is_some()));
                if !deleted {
                    let e = match (root_id, cid) {
                        (Some(r), Some(c)) => has_edge(&r, c),
                        _ => false,
                    };
                    o.push((format!("reference to {}", c), e));
                }
            }
        }
        Kind::Update { .. } => {
            let root = tags.get(&format!("op{}-u", i));
            let child = tags.get(&format!("op{}-1", i));
            o.push(("renamed row".to_string(), root.is_some()));
            o.push(("added row".to_string(), child.is_some()));
            o.push(("added reference".to_string(), matches!((root, child), (Some(r), Some(c)) if has_edge(r, c))));
        }
        Kind::Delete { .. } => {
            // the target id is in the acknowledgement, or (in flight / failed) derived from the target's own ack
            if let Some(t) = st.target.as_deref().map(|x| unb64(x)).and_then(|v| <[u8; 16]>::try_from(v.as_slice()).ok()) {
                o.push(("row removed".to_string(), !s.nodes.keys().any(|k| k.0 == t)));
                o.push(("deletion record".to_string(), s.node_del.keys().any(|k| k.2 == t)));
                let removed = !s.nodes.keys().any(|k| k.0 == t);
                o.push(("references of the row removed".to_string(), removed && !s.edges.keys().any(|(src, _, _)| *src == t)));
            }
        }
        Kind::Sync { rows } => {
            let first = tags.get(&format!("op{}-s0", i));
            for j in 0..*rows {
                o.push((format!("rows: op{}-s{}", i, j), tags.contains_key(&format!("op{}-s{}", i, j))));
            }
            for j in 1..*rows {
                let c = tags.get(&format!("op{}-s{}", i, j));
                o.push((format!("references: to op{}-s{}", i, j), matches!((first, c), (Some(r), Some(c)) if has_edge(r, c))));
            }
        }
        Kind::RoomEdit => {
            let key = b64(&Identity::new(seed, 100 + i as u64).vkey);
            let row = s.nodes.values().find(|n| n._entity == "0.2" && n._json.as_deref().map(|j| j.contains(&key)).unwrap_or(false));
            o.push(("user row".to_string(), row.is_some()));
            o.push(("reference to the user row".to_string(), row.map(|r| s.edges.keys().any(|(_, _, d)| *d == r.id)).unwrap_or(false)));
            o.push(("user in the room loaded at restart".to_string(), room_users.contains(&key)));
        }
        Kind::Recompute => {}
        Kind::Stream { rows } => {
            for j in 0..*rows {
                o.push((format!("rows: op{}-t{}", i, j), tags.contains_key(&format!("op{}-t{}", i, j))));
            }
        }
        Kind::WriteThenRecompute => {
            o.push(("row".to_string(), tags.contains_key(&format!("op{}-0", i))));
        }
    }
    o
}

fn run_case<'a>(ctx: &'a Ctx, case: u64, acc: &'a mut Acc) -> CaseFut<'a> {
    Box::pin(async move {
        let mut rng = ctx.rng(case);
        let seed = ctx.case_seed(case);
        let dir = ctx.case_dir(case);
        std::fs::create_dir_all(&dir).unwrap();
        // every failpoint x action is visited in turn, k is random
        let combos: Vec<(&str, &str, u64)> = POINTS.iter().flat_map(|(n, err, maxk)| {
            let mut v = vec![(*n, "abort", *maxk)];
            if *err {
                v.push((*n, "error", *maxk));
            }
            v
        }).collect();
        let (fp, action, maxk) = combos[(case as usize) % combos.len()];
        let k = rng.gen_range(1..=maxk);
        let exe = std::env::current_exe().unwrap();
        let mut child = match Command::new(exe).arg("child").arg("c13").arg(seed.to_string()).arg(&dir).arg(fp).arg(k.to_string()).arg(action).stdin(Stdio::null()).stdout(Stdio::null()).stderr(Stdio::piped()).spawn() {
            Ok(c) => c,
            Err(e) => {
                acc.inconclusive(format!("cannot spawn the workload process: {}", e));
                return;
            }
        };
        let start = std::time::Instant::now();
        let status = loop {
            match child.try_wait() {
                Ok(Some(s)) => break Some(s),
                Ok(None) => {
                    if start.elapsed() > Duration::from_secs(120) {
                        let _ = child.kill();
                        let _ = child.wait();
                        break None;
                    }
                    tokio::time::sleep(Duration::from_millis(20)).await;
                }
                Err(_) => break None,
            }
        };
        let mut stderr = String::new();
        if let Some(mut e) = child.stderr.take() {
            use std::io::Read;
            let _ = e.read_to_string(&mut stderr);
        }
        let Some(status) = status else {
            acc.inconclusive("workload process exceeded its watchdog");
            return;
        };
        let ack = std::fs::read_to_string(dir.join("ack.log")).unwrap_or_default();
        let groups = gen_groups(seed);
        let ops: Vec<OpSpec> = groups.iter().flatten().cloned().collect();
        let mut st: BTreeMap<usize, Status> = BTreeMap::new();
        let mut room: Option<Uid> = None;
        let mut armed = false;
        let mut done = false;
        let mut fired = 0u64;
        let mut ryw: Vec<String> = Vec::new();
        let mut room_leaks: Vec<String> = Vec::new();
        for l in ack.lines() {
            let mut it = l.splitn(3, ' ');
            let head = it.next().unwrap_or("");
            match head {
                "READY" => {
                    let v: Value = serde_json::from_str(l[6..].trim()).unwrap_or(Value::Null);
                    room = v["room"].as_str().map(unb64).and_then(|v| <[u8; 16]>::try_from(v.as_slice()).ok());
                }
                "ARMED" => armed = true,
                "DONE" => done = true,
                "FIRED" => fired = it.next().and_then(|x| x.parse().ok()).unwrap_or(0),
                "START" | "ACK" | "FAIL" | "SKIP" => {
                    let i: usize = it.next().and_then(|x| x.parse().ok()).unwrap_or(usize::MAX);
                    let rest = it.next().unwrap_or("").to_string();
                    let e = st.entry(i).or_default();
                    match head {
                        "START" => {
                            e.started = true;
                            if !rest.is_empty() {
                                e.target = Some(rest);
                            }
                        }
                        "ACK" => e.acked = Some(serde_json::from_str(&rest).unwrap_or(Value::Null)),
                        "FAIL" => e.failed = Some(rest),
                        _ => e.skipped = true,
                    }
                }
                "RYW-MISS" => ryw.push(l.to_string()),
                "ROOM-LEAK" => room_leaks.push(l.to_string()),
                _ => {}
            }
        }
        let died = !status.success();
        if died && action == "error" && !stderr.contains("verif injected") {
            // an injected error must not kill the process
        }
        if !armed || room.is_none() {
            acc.inconclusive(format!("workload process ended before the failpoint was armed: {}", stderr.lines().last().unwrap_or("").chars().take(120).collect::<String>()));
            return;
        }
        if died {
            fired = 1;
        }
        if died && action == "error" {
            acc.violation(format!("C13/process-died-on-injected-error/{}", fp), json!({"failpoint": fp, "k": k, "stderr_tail": stderr.lines().rev().take(4).collect::<Vec<_>>()}));
            return;
        }
        if !died && !done {
            acc.inconclusive("workload process ended without DONE");
            return;
        }
        let room = room.unwrap();
        // restart on the same folder
        clock_set(T0 + 3 * DAY + 10_000_000);
        clock_step(1);
        let peer = match Peer::start("p", seed, 0, MODEL, &dir.join("db"), small_config()).await {
            Ok(p) => p,
            Err(e) => {
                acc.violation(format!("C13/database-does-not-reopen-after/{}-{}", fp, action), json!({"error": e, "failpoint": fp, "k": k}));
                return;
            }
        };
        peer.barrier().await;
        peer.recompute().await;
        let s = match peer.read(|c| read_snapshot(c)).await {
            Ok(s) => s,
            Err(e) => {
                acc.inconclusive(format!("snapshot failed: {}", e));
                return;
            }
        };
        let mut tags: HashMap<String, Uid> = HashMap::new();
        for n in s.nodes.values() {
            if n.room_id == Some(room) {
                if let Some(t) = tag_of(n) {
                    tags.insert(t, n.id);
                }
            }
        }
        let room_users: HashSet<String> = match peer.room(room).await {
            Some(r) => {
                let mut set = HashSet::new();
                for (_, auth) in &r.authorisations {
                    for (key, _) in &auth.users {
                        set.insert(b64(key));
                    }
                }
                set
            }
            None => HashSet::new(),
        };
        let ctxj = json!({"failpoint": fp, "k": k, "action": action, "process_died": died, "fired": fired});
        let mut inflight_kinds: Vec<&'static str> = Vec::new();
        let mut any_violation = false;
        let mut after_failure = false;
        for op in &ops {
            let empty = Status::default();
            let stt = st.get(&op.i).unwrap_or(&empty);
            if stt.skipped {
                continue;
            }
            let obs = observe(op, stt, &s, &tags, &room_users, seed);
            // a synchronised batch is two write requests: rows, references
            let parts: Vec<Vec<&(String, bool)>> = if matches!(op.kind, Kind::Stream { .. }) {
                obs.iter().map(|o| vec![o]).collect()
            } else if matches!(op.kind, Kind::Sync { .. }) {
                vec![obs.iter().filter(|o| o.0.starts_with("rows")).collect(), obs.iter().filter(|o| o.0.starts_with("references")).collect()]
            } else {
                vec![obs.iter().collect()]
            };
            let all = obs.iter().all(|o| o.1);
            let none = obs.iter().all(|o| !o.1);
            let detail = json!({"request": op.i, "kind": op.kind.name(), "observed": obs.iter().map(|o| json!([o.0, o.1])).collect::<Vec<_>>(), "ack": stt.acked, "failed": stt.failed, "run": ctxj});
            if stt.acked.is_some() {
                if !all {
                    any_violation = true;
                    acc.violation(format!("C13/acknowledged-effect-missing-after-restart/{}/{}-{}", op.kind.name(), fp, action), detail);
                }
                if after_failure {
                    acc.count("acked_after_injected_error", 1);
                }
            } else if stt.failed.is_some() {
                let injected = stt.failed.as_deref().map(|f| f.contains("verif injected")).unwrap_or(false);
                // Delete observations need the target id, which a failed request does not report: covered by the
                // target's own root observation
                let partial = parts.iter().any(|p| !p.is_empty() && !p.iter().all(|o| o.1) && !p.iter().all(|o| !o.1));
                let applied = !obs.is_empty() && all && !matches!(op.kind, Kind::Sync { .. } | Kind::Stream { .. });
                if partial || applied {
                    any_violation = true;
                    acc.violation(format!("C13/request-reported-failed-has-{}-effect/{}/{}-{}", if applied { "its whole" } else { "a partial" }, op.kind.name(), fp, action), detail);
                } else if !injected && action == "error" && fired > 0 {
                    // a request failing for another reason than the injected error, after it: writes do not recover
                    any_violation = true;
                    acc.violation(format!("C13/later-request-fails-after-an-injected-error/{}", fp), detail);
                } else if !injected {
                    any_violation = true;
                    acc.violation(format!("C13/request-fails-without-injected-fault/{}", op.kind.name()), detail);
                }
                if injected {
                    after_failure = true;
                }
            } else if stt.started {
                inflight_kinds.push(op.kind.name());
                let partial = parts.iter().any(|p| !p.is_empty() && !p.iter().all(|o| o.1) && !p.iter().all(|o| !o.1));
                if partial {
                    any_violation = true;
                    acc.violation(format!("C13/partial-effect-of-a-request-in-flight-at-the-crash/{}/{}-{}", op.kind.name(), fp, action), detail);
                }
                acc.count(if all && !obs.is_empty() { "inflight_applied" } else { "inflight_not_applied" }, 1);
            } else if !none && !obs.is_empty() {
                any_violation = true;
                acc.violation("C13/effect-of-a-request-never-started", detail);
            }
        }
        for l in &room_leaks {
            any_violation = true;
            acc.violation(format!("C13/request-reported-failed-has-an-effect-on-the-running-instance/room-mutation/{}-{}", fp, action), json!({"line": l, "run": ctxj}));
        }
        for l in &ryw {
            any_violation = true;
            acc.violation("C13/acknowledged-write-not-visible-to-the-next-query", json!({"line": l, "run": ctxj}));
        }
        if let Some((mech, d)) = check_log(&s, &[room]) {
            any_violation = true;
            acc.violation(format!("C13/daily-log-inconsistent-after-restart/{}", mech), json!({"discrepancy": d, "run": ctxj}));
        }
        acc.count(&format!("fired/{}-{}", fp, action), fired.min(1));
        acc.count(&format!("runs/{}-{}", fp, action), 1);
        inflight_kinds.sort();
        inflight_kinds.dedup();
        let key = format!("{}-{} fired={} inflight={}", fp, action, fired > 0, inflight_kinds.join("+"));
        acc.distinct("runs", key.clone());
        if acc.samples.len() < 3 {
            acc.sample(json!({"run": ctxj, "requests": ops.len(), "acked": st.values().filter(|x| x.acked.is_some()).count(), "failed": st.values().filter(|x| x.failed.is_some()).count(), "in_flight": inflight_kinds}));
        }
        if !any_violation {
            acc.held(if fired > 0 { Some(key) } else { None });
        }
        let _ = Path::new("");
    })
}
