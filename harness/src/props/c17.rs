//! C17 — Full-text search returns exactly the rows whose current text matches.
use crate::repl::{Op, Scenario};
use crate::runner::{Acc, CaseFut, Ctx, PropDef};
use crate::util::b64;
use crate::world::MODEL;
use discret::verif::security::Uid;
use discret::{Parameters, ParametersAdd};
use rand::rngs::StdRng;
use rand::Rng;
use serde_json::{json, Value};
use std::collections::{BTreeMap, BTreeSet};

pub static DEF: PropDef = PropDef {
    id: "C17",
    level: "exploration",
    rule: "histories on two real database services sharing a room: rows whose text fields are made of unique random tokens (6 lower-case letters and digits) are created, updated (text replaced, a text field removed), deleted and followed by new creations (storage-slot reuse), the indexing of one entity is switched off and on again by model updates, and pulls deliver new rows and newer versions in both directions; after every step, for every token ever used and on each peer, search(token) must return exactly the rows of the entity that the peer stores and whose current text contains the token (entities with indexing enabled, rows written while it was enabled). non-trivial = history with an update that removed a token from a row, a deletion followed by a creation, and a pull that delivered a newer version of an indexed row; distinct = canonical op sequence",
    assumptions: &[
        "the current text of a row is the concatenation of its string fields as stored in the row JSON on that peer",
        "rows written while the entity's indexing was switched off are not demanded either way until they are written again",
    ],
    cases: |t| t.pick(160, 2000),
    shards: |t| t.pick(12, 16),
    case_budget_s: |_| 240,
    min_conclusive: |t| t.pick(30, 600),
    run_case,
    finish: None,
    worker_threads: 4,
    tokio_per_case: true,
};

fn token(rng: &mut StdRng) -> String {
    let letters: Vec<char> = "abcdefghijklmnopqrstuvwxyz".chars().collect();
    let all: Vec<char> = "abcdefghijklmnopqrstuvwxyz0123456789".chars().collect();
    let mut s = String::new();
    s.push(letters[rng.gen_range(0..letters.len())]);
    for _ in 0..5 {
        s.push(all[rng.gen_range(0..all.len())]);
    }
    s
}

async fn search(sc: &Scenario, peer: usize, entity: &str, tok: &str) -> Result<BTreeSet<String>, String> {
    let mut p = Parameters::new();
    p.add("s", tok.to_string()).unwrap();
    let q = format!("query {{ r: {}(search($s)){{ id }} }}", entity);
    let v = sc.peers[peer].query_json(&q, Some(p)).await?;
    Ok(v["r"]
        .as_array()
        .map(|a| a.iter().filter_map(|x| x["id"].as_str().map(|s| s.to_string())).collect())
        .unwrap_or_default())
}

fn run_case<'a>(ctx: &'a Ctx, case: u64, acc: &'a mut Acc) -> CaseFut<'a> {
    Box::pin(async move {
        let mut rng = ctx.rng(case);
        let dir = ctx.case_dir(case);
        let mut sc = match Scenario::new(&dir, ctx.case_seed(case), 2, true).await {
            Ok(s) => s,
            Err(e) => {
                acc.inconclusive(e);
                return;
            }
        };
        let room64 = sc.room.id64();
        // rows: id -> entity ; tokens: (entity, token)
        let mut rows: Vec<(Uid, &'static str)> = Vec::new();
        let mut tokens: BTreeSet<(&'static str, String)> = BTreeSet::new();
        // tokens ever written to a row
        let mut row_tokens: BTreeMap<Uid, BTreeSet<String>> = BTreeMap::new();
        let mut reported: BTreeSet<String> = BTreeSet::new();
        // rows of which some version was written by synchronisation on that peer
        let mut synced_rows: Vec<BTreeSet<Uid>> = vec![BTreeSet::new(), BTreeSet::new()];
        // per peer: rows written while indexing was off (not demanded)
        let mut unindexed: Vec<BTreeSet<Uid>> = vec![BTreeSet::new(), BTreeSet::new()];
        let mut pet_index_on = [true, true];
        let mut log: Vec<Value> = Vec::new();
        let n_ops = rng.gen_range(8..ctx.tier.pick(22, 40));
        let (mut removed_token, mut delete_then_create, mut newer_by_pull) = (false, false, false);
        let mut last_was_delete = false;
        let mut kinds = Vec::new();
        let mut dirty_since_pull: [BTreeSet<Uid>; 2] = [BTreeSet::new(), BTreeSet::new()];
        for step in 0..n_ops {
            sc.tick(rng.gen_range(1..50_000_000));
            let peer = rng.gen_range(0..2);
            let k = rng.gen_range(0..100);
            let kind;
            if rows.is_empty() || k < 25 {
                let ent: &'static str = if rng.gen_bool(0.7) { "Person" } else { "Pet" };
                let (t1, t2) = (token(&mut rng), token(&mut rng));
                let mut p = Parameters::new();
                p.add("room", room64.clone()).unwrap();
                p.add("v", format!("{} {}", t1, t2)).unwrap();
                let res = sc.peers[peer].mutate(&format!("mutate {{ {}{{ room_id:$room name:$v }} }}", ent), Some(p)).await;
                if let Ok(r) = res {
                    let v: Value = serde_json::from_str(&r).unwrap();
                    let id: Uid = crate::util::unb64(v[ent]["id"].as_str().unwrap()).try_into().unwrap();
                    rows.push((id, ent));
                    row_tokens.entry(id).or_default().insert(t1.clone());
                    row_tokens.entry(id).or_default().insert(t2.clone());
                    tokens.insert((ent, t1));
                    tokens.insert((ent, t2));
                    if ent == "Pet" && !pet_index_on[peer] {
                        unindexed[peer].insert(id);
                    } else {
                        unindexed[peer].remove(&id);
                    }
                    dirty_since_pull[peer].insert(id);
                    if last_was_delete {
                        delete_then_create = true;
                    }
                }
                kind = "create";
            } else if k < 50 {
                let (id, ent) = rows[rng.gen_range(0..rows.len())];
                let t1 = token(&mut rng);
                let mut p = Parameters::new();
                p.add("id", b64(&id)).unwrap();
                p.add("v", t1.clone()).unwrap();
                if sc.peers[peer].mutate(&format!("mutate {{ {}{{ id:$id name:$v }} }}", ent), Some(p)).await.is_ok() {
                    row_tokens.entry(id).or_default().insert(t1.clone());
                    tokens.insert((ent, t1));
                    removed_token = true;
                    if ent == "Pet" && !pet_index_on[peer] {
                        unindexed[peer].insert(id);
                    } else {
                        unindexed[peer].remove(&id);
                    }
                    dirty_since_pull[peer].insert(id);
                }
                kind = "update-text";
            } else if k < 60 {
                // nick set then removed on a Person
                let persons: Vec<Uid> = rows.iter().filter(|r| r.1 == "Person").map(|r| r.0).collect();
                if let Some(id) = persons.get(rng.gen_range(0..persons.len().max(1))) {
                    let mut p = Parameters::new();
                    p.add("id", b64(id)).unwrap();
                    let text = if rng.gen_bool(0.6) {
                        let t1 = token(&mut rng);
                        p.add("v", t1.clone()).unwrap();
                        row_tokens.entry(*id).or_default().insert(t1.clone());
                        tokens.insert(("Person", t1));
                        "mutate { Person{ id:$id nick:$v } }"
                    } else {
                        removed_token = true;
                        "mutate { Person{ id:$id nick:null } }"
                    };
                    if sc.peers[peer].mutate(text, Some(p)).await.is_ok() {
                        dirty_since_pull[peer].insert(*id);
                    }
                }
                kind = "nick";
            } else if k < 72 {
                let i = rng.gen_range(0..rows.len());
                let (id, ent) = rows[i];
                let mut p = Parameters::new();
                p.add("id", b64(&id)).unwrap();
                let _ = sc.peers[peer].delete(&format!("delete {{ {}{{ $id }} }}", ent), Some(p)).await;
                kind = "delete";
            } else if k < 80 {
                // switch the indexing of Pet off / on through a model update
                pet_index_on[peer] = !pet_index_on[peer];
                let model = if pet_index_on[peer] {
                    MODEL.to_string()
                } else {
                    MODEL.replace("Pet{ name:String }", "Pet(no_full_text_index){ name:String }")
                };
                if let Err(e) = sc.peers[peer].db.update_data_model(&model).await {
                    log.push(json!({"step": step, "model_update_refused": e.to_string()}));
                    pet_index_on[peer] = !pet_index_on[peer];
                }
                kind = if pet_index_on[peer] { "index-on" } else { "index-off" };
            } else {
                let (dst, src) = if rng.gen_bool(0.5) { (0, 1) } else { (1, 0) };
                let before = sc.peers[dst].snapshot().await;
                sc.apply(&Op::Pull { dst, src, cut: None }).await;
                let after = sc.peers[dst].snapshot().await;
                for (k, n) in &after.nodes {
                    if let Some(o) = before.nodes.get(k) {
                        if o.mdate < n.mdate {
                            newer_by_pull = true;
                        }
                    }
                    // rows delivered while the receiver has the entity's indexing off
                    if before.nodes.get(k).map(|o| o._signature != n._signature).unwrap_or(true) {
                        synced_rows[dst].insert(n.id);
                        if n._entity == "1" && !pet_index_on[dst] {
                            unindexed[dst].insert(n.id);
                        } else {
                            unindexed[dst].remove(&n.id);
                        }
                    }
                }
                dirty_since_pull[src].clear();
                kind = "pull";
            }
            last_was_delete = kind == "delete";
            kinds.push(kind);
            acc.count(&format!("op/{}", kind), 1);
            log.push(json!({"step": step, "peer": peer, "op": kind}));
            // oracle on every peer for every token
            for pi in 0..2 {
                let snap = sc.peers[pi].snapshot().await;
                for (ent, tok) in &tokens {
                    let short = if *ent == "Person" { "0" } else { "1" };
                    if *ent == "Pet" && !pet_index_on[pi] {
                        continue; // indexing currently off on that peer for the entity
                    }
                    let expected: BTreeSet<String> = snap
                        .nodes
                        .values()
                        .filter(|n| n._entity == short && !unindexed[pi].contains(&n.id))
                        .filter(|n| {
                            let v: Value = serde_json::from_str(n._json.as_deref().unwrap_or("{}")).unwrap_or(json!({}));
                            v.as_object().map(|o| o.values().any(|x| x.as_str().map(|s| s.contains(tok.as_str())).unwrap_or(false))).unwrap_or(false)
                        })
                        .map(|n| b64(&n.id))
                        .collect();
                    let not_demanded: BTreeSet<String> = unindexed[pi].iter().map(|i| b64(i)).collect();
                    let got = match search(&sc, pi, ent, tok).await {
                        Ok(g) => g,
                        Err(e) => {
                            acc.violation("C17/search-query-fails", json!({"error": e, "token": tok, "history": log}));
                            return;
                        }
                    };
                    acc.count("searches_checked", 1);
                    let missing: Vec<&String> = expected.iter().filter(|i| !got.contains(*i)).collect();
                    let stale: Vec<&String> = got.iter().filter(|i| !expected.contains(*i) && !not_demanded.contains(*i)).collect();
                    if !missing.is_empty() || !stale.is_empty() {
                        // mechanism attribution from what the harness observed
                        let arrived_by_sync = |id: &String| -> bool {
                            snap.nodes.values().any(|n| &b64(&n.id) == id && n.verifying_key != sc.peers[pi].id.vkey)
                                || synced_rows[pi].iter().any(|r| &b64(r) == id)
                        };
                        let own_previous = |id: &String| -> bool {
                            row_tokens.iter().any(|(rid, toks)| &b64(rid) == id && toks.contains(tok))
                        };
                        let sig = if !missing.is_empty() {
                            if missing.iter().all(|i| arrived_by_sync(i)) {
                                "C17/current-text-not-found/row-received-by-synchronisation"
                            } else {
                                "C17/current-text-not-found/row-written-locally"
                            }
                        } else if stale.iter().any(|i| own_previous(i)) {
                            if stale.iter().filter(|i| own_previous(i)).all(|i| arrived_by_sync(i)) {
                                "C17/stale-text-matches/previous-text-of-a-row-replaced-through-synchronisation"
                            } else {
                                "C17/stale-text-matches/previous-text-of-a-row-updated-locally"
                            }
                        } else if stale.iter().all(|i| snap.nodes.values().any(|n| &b64(&n.id) == *i)) {
                            "C17/stale-text-matches/text-of-a-deleted-row-inherited-by-the-row-reusing-its-storage-slot"
                        } else {
                            "C17/stale-text-matches/row-no-longer-stored"
                        };
                        if !reported.insert(sig.to_string()) {
                            continue;
                        }
                        acc.violation(
                            sig,
                            json!({"peer": pi, "entity": ent, "token": tok, "missing": missing, "stale": stale, "after_op": kind, "history": log}),
                        );
                        continue;
                    }
                }
            }
        }
        if !reported.is_empty() {
            return;
        }
        let key = if removed_token && delete_then_create && newer_by_pull { Some(kinds.join(",")) } else { None };
        acc.held(key);
        acc.sample(json!({"ops": kinds, "tokens": tokens.len()}));
    })
}
