//! C16 — Concurrent mutations of one row do not lose acknowledged changes.
//!
//! Black box stress at the API boundary: 2-3 mutations of one row are in flight together (concurrent
//! callers, or pipelined on one mutation stream) on an instance with a reader pool of 4; once all are
//! acknowledged the final row must equal the result of applying them one after another in some order.
use crate::peer::{small_config, Peer};
use crate::runner::{Acc, CaseFut, Ctx, PropDef};
use crate::util::{b64, clock_real};
use crate::world::{open_room_spec, MODEL};
use discret::{Parameters, ParametersAdd};
use rand::seq::SliceRandom;
use rand::Rng;
use serde_json::{json, Value};
use std::collections::BTreeSet;

pub static DEF: PropDef = PropDef {
    id: "C16",
    level: "exploration",
    rule: "groups of 2-3 mutations of one row drawn from {set field a, set field b, set field a again, add reference, replace entity reference, move to another room} issued together by concurrent callers or pipelined on one mutation stream against a real instance (reader pool of 4, real clock); after all acknowledgements the final row (fields, references, room) is compared with the set of outcomes of every serial order of the acknowledged mutations; non-trivial = all mutations of the group acknowledged and at least two of them touch different parts of the row; distinct = (kinds, mode) No-op clears of empty references are part of the pool; a loss in a group where a single mutation changes the row has its own signature. Two group additions to one room definition pipelined on the mutation stream: the room held in memory must hold both; the stored row must verify as one signed image after every group.",
    assumptions: &[
        "interleavings are those the tokio scheduler, the reader pool and the batch writer produce under stress; they are sampled, not enumerated",
    ],
    cases: |t| t.pick(24, 160),
    shards: |t| t.pick(8, 16),
    case_budget_s: |_| 300,
    min_conclusive: |t| t.pick(8, 60),
    run_case,
    finish: None,
    worker_threads: 4,
    tokio_per_case: true,
};

#[derive(Clone, Debug, PartialEq, Eq, PartialOrd, Ord)]
struct RowState {
    name: String,
    nick: Option<String>,
    parents: BTreeSet<String>,
    pet: Option<String>,
    room: String,
}

#[derive(Clone, Debug)]
enum Mutn {
    SetName(String),
    SetNick(String),
    AddParent(String),
    SetPet(String),
    Move(String, String),
    /// mutations that change nothing when the reference is already empty: they must not write the row
    ClearPet,
    ClearParents,
}
impl Mutn {
    fn kind(&self) -> &'static str {
        match self {
            Mutn::SetName(_) => "set-name",
            Mutn::SetNick(_) => "set-nick",
            Mutn::AddParent(_) => "add-reference",
            Mutn::SetPet(_) => "replace-entity-reference",
            Mutn::Move(_, _) => "move-room",
            Mutn::ClearPet => "clear-entity-reference",
            Mutn::ClearParents => "clear-references",
        }
    }
    fn apply(&self, s: &mut RowState) {
        match self {
            Mutn::SetName(v) => s.name = v.clone(),
            Mutn::SetNick(v) => s.nick = Some(v.clone()),
            Mutn::AddParent(p) => {
                s.parents.insert(p.clone());
            }
            Mutn::SetPet(q) => s.pet = Some(q.clone()),
            Mutn::Move(r, v) => {
                s.room = r.clone();
                s.nick = Some(v.clone());
            }
            Mutn::ClearPet => s.pet = None,
            Mutn::ClearParents => s.parents.clear(),
        }
    }
    fn request(&self, id: &str) -> (String, Parameters) {
        let mut p = Parameters::new();
        p.add("id", id.to_string()).unwrap();
        let text = match self {
            Mutn::SetName(v) => {
                p.add("v", v.clone()).unwrap();
                "mutate { Person{ id:$id name:$v } }"
            }
            Mutn::SetNick(v) => {
                p.add("v", v.clone()).unwrap();
                "mutate { Person{ id:$id nick:$v } }"
            }
            Mutn::AddParent(x) => {
                p.add("x", x.clone()).unwrap();
                "mutate { Person{ id:$id parents:[{id:$x}] } }"
            }
            Mutn::SetPet(x) => {
                p.add("x", x.clone()).unwrap();
                "mutate { Person{ id:$id pet:{id:$x} } }"
            }
            Mutn::Move(r, v) => {
                p.add("r", r.clone()).unwrap();
                p.add("v", v.clone()).unwrap();
                "mutate { Person{ id:$id room_id:$r nick:$v } }"
            }
            Mutn::ClearPet => "mutate { Person{ id:$id pet:null } }",
            Mutn::ClearParents => "mutate { Person{ id:$id parents:null } }",
        };
        (text.to_string(), p)
    }
}

fn permutations(n: usize) -> Vec<Vec<usize>> {
    if n == 1 {
        return vec![vec![0]];
    }
    let mut out = Vec::new();
    for p in permutations(n - 1) {
        for i in 0..n {
            let mut v = p.clone();
            v.insert(i, n - 1);
            out.push(v);
        }
    }
    out
}

async fn read_state(peer: &Peer, id: &str) -> Result<RowState, String> {
    let mut p = Parameters::new();
    p.add("id", id.to_string()).unwrap();
    let v = peer
        .query_json(
            "query { Person(id=$id, nullable(pet, parents)){ id room_id name nick pet{ id } parents{ id } } }",
            Some(p),
        )
        .await?;
    let row = v["Person"]
        .as_array()
        .and_then(|a| a.first())
        .ok_or("row not found")?
        .clone();
    let mut parents = BTreeSet::new();
    if let Some(a) = row["parents"].as_array() {
        for x in a {
            parents.insert(x["id"].as_str().unwrap_or("").to_string());
        }
    }
    Ok(RowState {
        name: row["name"].as_str().unwrap_or("").to_string(),
        nick: row["nick"].as_str().map(|s| s.to_string()),
        parents,
        pet: row["pet"]["id"].as_str().map(|s| s.to_string()),
        room: row["room_id"].as_str().unwrap_or("").to_string(),
    })
}

fn id_of(result: &str, entity: &str) -> String {
    let v: Value = serde_json::from_str(result).unwrap();
    v[entity]["id"].as_str().unwrap().to_string()
}

fn run_case<'a>(ctx: &'a Ctx, case: u64, acc: &'a mut Acc) -> CaseFut<'a> {
    Box::pin(async move {
        clock_real();
        let mut rng = ctx.rng(case);
        let dir = ctx.case_dir(case);
        let mut cfg = small_config();
        cfg.parallelism = 4;
        if rng.gen_bool(0.3) {
            cfg.write_buffer_length = 1;
        }
        let peer = match Peer::start("p", ctx.case_seed(case), 0, MODEL, &dir, cfg).await {
            Ok(p) => p,
            Err(e) => {
                acc.inconclusive(e);
                return;
            }
        };
        let keys = vec![peer.id.vkey.clone()];
        let spec = open_room_spec(&keys, &["Person", "Pet"], true);
        let r1 = peer.create_room(&spec).await.unwrap();
        let r2 = peer.create_room(&spec).await.unwrap();
        let groups = ctx.tier.pick(12, 60);
        let mut held_groups = 0;
        for g in 0..groups {
            // fresh row with two candidate parents and two candidate pets
            let mut p = Parameters::new();
            p.add("room", r1.id64()).unwrap();
            let base = format!("g{}", g);
            let mk = |ent: &str, field: &str, val: String| {
                let mut p = Parameters::new();
                p.add("room", r1.id64()).unwrap();
                p.add("v", val).unwrap();
                (format!("mutate {{ {}{{ room_id:$room {}:$v }} }}", ent, field), p)
            };
            let (m, pp) = mk("Person", "name", format!("{}-n0", base));
            let id = id_of(&peer.mutate(&m, Some(pp)).await.unwrap(), "Person");
            let (m, pp) = mk("Person", "name", format!("{}-pa", base));
            let pa = id_of(&peer.mutate(&m, Some(pp)).await.unwrap(), "Person");
            let (m, pp) = mk("Pet", "name", format!("{}-q", base));
            let q = id_of(&peer.mutate(&m, Some(pp)).await.unwrap(), "Pet");
            drop(p);
            let initial = match read_state(&peer, &id).await {
                Ok(s) => s,
                Err(e) => {
                    acc.inconclusive(e);
                    continue;
                }
            };
            let mut pool = vec![
                Mutn::SetName(format!("{}-n1", base)),
                Mutn::SetNick(format!("{}-k1", base)),
                Mutn::SetName(format!("{}-n2", base)),
                Mutn::AddParent(pa.clone()),
                Mutn::SetPet(q.clone()),
                Mutn::Move(r2.id64(), format!("{}-k2", base)),
                Mutn::ClearPet,
                Mutn::ClearParents,
            ];
            pool.shuffle(&mut rng);
            let k = rng.gen_range(2..=3);
            let chosen: Vec<Mutn> = pool.into_iter().take(k).collect();
            let mode_pick = rng.gen_range(0..10);
            let stream_mode = mode_pick < 4;
            let sequential = mode_pick >= 8;
            let mut acked = vec![false; k];
            if sequential {
                // control: one after another, nothing may ever be lost
                for (i, m) in chosen.iter().enumerate() {
                    let (text, prm) = m.request(&id);
                    acked[i] = peer.mutate(&text, Some(prm)).await.is_ok();
                }
            } else if stream_mode {
                let (tx, mut rx) = peer.db.mutation_stream();
                for m in &chosen {
                    let (text, prm) = m.request(&id);
                    let _ = tx.send((text, Some(prm))).await;
                }
                // the stream answers in write order, which may differ from the send order: an
                // acknowledgement is attributed by content
                for _ in 0..k {
                    match rx.recv().await {
                        Some(Ok(_)) => {
                            if let Some(i) = acked.iter().position(|a| !a) {
                                acked[i] = true;
                            }
                        }
                        Some(Err(e)) => {
                            let e = e.to_string();
                            acc.count("stream_mutations_refused", 1);
                            if e.contains("malformed") || e.contains("corrupt") || e.contains("constraint") {
                                acc.violation(
                                    "C16/concurrent-mutation-fails-with-a-storage-engine-error/mutation-stream",
                                    json!({"error": e.chars().take(200).collect::<String>(), "mutations": chosen.iter().map(|m| format!("{:?}", m)).collect::<Vec<_>>()}),
                                );
                            }
                        }
                        None => {}
                    }
                }
                drop(tx);
            } else {
                let futs = chosen.iter().map(|m| {
                    let (text, prm) = m.request(&id);
                    let peer = &peer;
                    async move { peer.mutate(&text, Some(prm)).await }
                });
                let res = futures::future::join_all(futs).await;
                for (i, r) in res.into_iter().enumerate() {
                    if let Err(e) = &r {
                        if e.contains("malformed") || e.contains("corrupt") || e.contains("constraint") {
                            acc.violation(
                                "C16/concurrent-mutation-fails-with-a-storage-engine-error/concurrent-callers",
                                json!({"error": e.chars().take(200).collect::<String>(), "mutations": chosen.iter().map(|m| format!("{:?}", m)).collect::<Vec<_>>()}),
                            );
                        }
                    }
                    acked[i] = r.is_ok();
                }
            }
            acc.count("groups", 1);
            acc.count("mutations_in_flight", k as u64);
            if !acked.iter().all(|a| *a) {
                acc.count("groups_with_refused_mutation", 1);
                // in stream mode refusals cannot be attributed; skip the group (not demanded)
                if stream_mode {
                    continue;
                }
            }
            let final_state = match read_state(&peer, &id).await {
                Ok(s) => s,
                Err(e) => {
                    acc.inconclusive(e);
                    continue;
                }
            };
            // no mixed state: the stored row is one signed image (its signature covers every column, the date included)
            {
                let snap = peer.snapshot().await;
                let raw = crate::util::unb64(&id);
                if let Some(n) = snap.nodes.values().find(|n| n.id.as_slice() == raw.as_slice()) {
                    acc.count("stored_rows_verified", 1);
                    if n.verify().is_err() {
                        acc.violation(
                            if sequential { "C16/sequential-control/stored-row-does-not-verify" } else { "C16/mixed-state/stored-row-is-not-one-signed-image" },
                            json!({"mutations": chosen.iter().map(|m| format!("{:?}", m)).collect::<Vec<_>>(), "row": crate::snapshot::node_json(n)}),
                        );
                        continue;
                    }
                }
            }
            let acked_muts: Vec<&Mutn> = chosen
                .iter()
                .zip(acked.iter())
                .filter(|(_, a)| **a)
                .map(|(m, _)| m)
                .collect();
            if acked_muts.is_empty() {
                continue;
            }
            let mut outcomes = BTreeSet::new();
            for perm in permutations(acked_muts.len()) {
                let mut s = initial.clone();
                for i in perm {
                    acked_muts[i].apply(&mut s);
                }
                outcomes.insert(s);
            }
            acc.count("serial_outcomes_computed", outcomes.len() as u64);
            let kinds: Vec<&str> = chosen.iter().map(|m| m.kind()).collect();
            let mode = if sequential {
                "sequential"
            } else if stream_mode {
                "stream"
            } else {
                "callers"
            };
            if !outcomes.contains(&final_state) {
                // classify: which acknowledged effect is missing
                let reference = outcomes.iter().next().unwrap();
                let mut lost = Vec::new();
                if !outcomes.iter().any(|o| o.name == final_state.name) || !outcomes.iter().any(|o| o.nick == final_state.nick) {
                    lost.push("field-assignment");
                }
                if final_state.parents != reference.parents || !outcomes.iter().any(|o| o.pet == final_state.pet) {
                    lost.push("reference-change");
                }
                if !outcomes.iter().any(|o| o.room == final_state.room) {
                    lost.push("room-move");
                }
                let explained_by_dropping = {
                    // is the final state the result of applying a strict subset of the mutations?
                    let n = acked_muts.len();
                    let mut found = false;
                    for mask in 0..(1u32 << n) {
                        let subset: Vec<&Mutn> = (0..n).filter(|i| mask & (1 << i) != 0).map(|i| acked_muts[i]).collect();
                        if subset.len() == n {
                            continue;
                        }
                        if subset.is_empty() {
                            if initial == final_state {
                                found = true;
                            }
                            continue;
                        }
                        for perm in permutations(subset.len()) {
                            let mut s = initial.clone();
                            for i in perm {
                                subset[i].apply(&mut s);
                            }
                            if s == final_state {
                                found = true;
                            }
                        }
                    }
                    found
                };
                // how many mutations of the group change the row at all (in some serial order)? A lost update between two
                // writers is one mechanism; a loss caused by a mutation that changes nothing is another
                let mut writers = 0;
                for (i, m) in acked_muts.iter().enumerate() {
                    let mut effective = false;
                    for perm in permutations(acked_muts.len()) {
                        let mut s = initial.clone();
                        for j in perm {
                            let before = s.clone();
                            acked_muts[j].apply(&mut s);
                            if j == i && s != before {
                                effective = true;
                            }
                        }
                    }
                    let _ = m;
                    if effective {
                        writers += 1;
                    }
                }
                let mech = if writers >= 2 { "several-mutations-of-the-group-change-the-row" } else { "only-one-mutation-of-the-group-changes-the-row" };
                let sig = if sequential {
                    "C16/sequential-control/acknowledged-change-lost".to_string()
                } else if explained_by_dropping {
                    format!("C16/acknowledged-change-lost/{}/{}", lost.first().unwrap_or(&"other"), mech)
                } else {
                    "C16/mixed-state-not-explained-by-any-subset".to_string()
                };
                acc.violation(
                    sig,
                    json!({"mode": mode, "mutations": chosen.iter().map(|m| format!("{:?}", m)).collect::<Vec<_>>(), "initial": format!("{:?}", initial), "final": format!("{:?}", final_state), "serial_outcomes": outcomes.iter().map(|o| format!("{:?}", o)).collect::<Vec<_>>()}),
                );
            } else {
                held_groups += 1;
                let parts: BTreeSet<&str> = kinds.iter().copied().collect();
                if acked.iter().all(|a| *a) && parts.len() >= 2 {
                    acc.nontrivial(format!("{:?}/{}", parts, mode));
                }
                acc.distinct("kinds_mode", format!("{:?}/{}", kinds, mode));
                if g % 10 == 0 {
                    acc.sample(json!({"mode": mode, "mutations": chosen.iter().map(|m| format!("{:?}", m)).collect::<Vec<_>>(), "final": format!("{:?}", final_state)}));
                }
            }
        }
        // the same for a room definition row: two additions of a group pipelined on the mutation stream (and, as a
        // control, one after the other); both are acknowledged, the room the instance decides with must hold both
        for round in 0..3 {
            let room = match peer.create_room(&spec).await {
                Ok(r) => r,
                Err(_) => break,
            };
            let before = peer.room(room.id).await.map(|r| r.authorisations.len()).unwrap_or(0);
            let texts: Vec<(String, Parameters)> = ["Pet", "ns.Thing"]
                .iter()
                .map(|ent| {
                    let mut p = Parameters::new();
                    p.add("room", room.id64()).unwrap();
                    (format!("mutate {{ sys.Room{{ id:$room authorisations:[{{ name:\"added for {}\" rights:[{{entity:\"{}\" mutate_self:true mutate_all:true}}] }}] }} }}", ent, ent), p)
                })
                .collect();
            let sequential = round == 2;
            let mut acks = 0;
            if sequential {
                for (t, p) in texts {
                    if peer.mutate(&t, Some(p)).await.is_ok() {
                        acks += 1;
                    }
                }
            } else {
                let (tx, mut rx) = peer.db.mutation_stream();
                for (t, p) in texts {
                    let _ = tx.send((t, Some(p))).await;
                }
                for _ in 0..2 {
                    if let Some(Ok(_)) = rx.recv().await {
                        acks += 1;
                    }
                }
                drop(tx);
            }
            peer.barrier().await;
            acc.count("room_definition_groups", 1);
            if acks == 2 {
                let after = peer.room(room.id).await.map(|r| r.authorisations.len()).unwrap_or(0);
                if after != before + 2 {
                    acc.violation(
                        if sequential { "C16/sequential-control/acknowledged-change-lost/room-definition" } else { "C16/acknowledged-change-lost/room-definition/pipelined-on-the-mutation-stream" },
                        json!({"groups_before": before, "groups_acknowledged": 2, "groups_in_the_live_room": after}),
                    );
                }
            }
        }
        acc.count("groups_held", held_groups);
        acc.evaluations += groups as u64 - 1;
        if held_groups > 0 {
            acc.held(None);
        }
        let _ = b64;
    })
}
