//! C09 — The daily log is a function of the stored content, nothing else.
use crate::repl::{room_dump, Op, OpOutcome, Scenario};
use crate::runner::{Acc, CaseFut, Ctx, PropDef};
use crate::snapshot::Snapshot;
use crate::util::{b64, day_of, DAY};
use discret::verif::security::Uid;
use rand::Rng;
use serde_json::{json, Value};
use std::collections::{BTreeMap, BTreeSet};

pub static DEF: PropDef = PropDef {
    id: "C09",
    level: "exploration",
    rule: "random multi-day histories on 2-3 real database services and two rooms: creations (single, nested, through the mutation stream), updates that move a row to another day or to the other room, reference changes, node and reference deletions of rows created on earlier days, pulls in any order; after every step and a deterministic recompute barrier the stored log of every peer is compared with an independent from-scratch recomputation over _node and both deletion logs, and at the end peers with equal content must have equal logs, peers with different content different logs; non-trivial = a row changed day or room, a row of an earlier day was deleted, and at least two ways of batching were used; distinct = canonical op-kind sequence",
    assumptions: &[
        "scope: rooms created by the workload and user entities; rows the library writes at start-up through its generic writer (dated 0, private room) are not local writes and are excluded",
        "the recompute barrier relies on FIFO order of the database actor, writer and event service queues",
    ],
    cases: |t| t.pick(240, 2500),
    shards: |t| t.pick(12, 16),
    case_budget_s: |_| 240,
    min_conclusive: |t| t.pick(40, 800),
    run_case,
    finish: None,
    worker_threads: 4,
    tokio_per_case: true,
};

/// independent recomputation: (room, entity, day) -> (entry number, daily hash)
pub fn recompute(s: &Snapshot, rooms: &[Uid]) -> BTreeMap<(Uid, String, i64), (u32, Option<Vec<u8>>)> {
    let mut sigs: BTreeMap<(Uid, String, i64), Vec<Vec<u8>>> = BTreeMap::new();
    for n in s.nodes.values() {
        if let Some(r) = n.room_id {
            if rooms.contains(&r) {
                sigs.entry((r, n._entity.clone(), day_of(n.mdate)))
                    .or_default()
                    .push(n._signature.clone());
            }
        }
    }
    for d in s.node_del.values() {
        if rooms.contains(&d.room_id) {
            sigs.entry((d.room_id, d.entity.clone(), day_of(d.deletion_date)))
                .or_default()
                .push(d.signature.clone());
        }
    }
    for d in s.edge_del.values() {
        if rooms.contains(&d.room_id) {
            sigs.entry((d.room_id, d.src_entity.clone(), day_of(d.deletion_date)))
                .or_default()
                .push(d.signature.clone());
        }
    }
    let mut out = BTreeMap::new();
    for (k, mut v) in sigs {
        v.sort();
        let mut h = blake3::Hasher::new();
        for s in &v {
            h.update(s);
        }
        out.insert(k, (v.len() as u32, Some(h.finalize().as_bytes().to_vec())));
    }
    out
}

/// R1: stored log == recomputation; returns the first discrepancy
pub fn check_log(s: &Snapshot, rooms: &[Uid]) -> Option<(String, Value)> {
    let expected = recompute(s, rooms);
    for (k, (n, h)) in &expected {
        match s.daily.get(k) {
            None => {
                return Some((
                    "content-without-log-row".to_string(),
                    json!({"room": b64(&k.0), "entity": k.1, "day": k.2, "expected_entries": n}),
                ))
            }
            Some(l) => {
                if l.need_recompute {
                    return Some((
                        "still-marked-for-recompute-after-barrier".to_string(),
                        json!({"room": b64(&k.0), "entity": k.1, "day": k.2}),
                    ));
                }
                if l.entry_number != *n || &l.daily_hash != h {
                    return Some((
                        "stale-entry-count-or-hash".to_string(),
                        json!({"room": b64(&k.0), "entity": k.1, "day": k.2, "stored_entries": l.entry_number, "recomputed_entries": n, "hash_equal": &l.daily_hash == h}),
                    ));
                }
            }
        }
    }
    for (k, l) in &s.daily {
        if rooms.contains(&k.0) && !expected.contains_key(k) {
            if l.need_recompute {
                return Some((
                    "still-marked-for-recompute-after-barrier".to_string(),
                    json!({"room": b64(&k.0), "entity": k.1, "day": k.2}),
                ));
            }
            if l.entry_number != 0 || l.daily_hash.is_some() {
                return Some((
                    "log-row-for-content-that-is-not-stored".to_string(),
                    json!({"room": b64(&k.0), "entity": k.1, "day": k.2, "stored_entries": l.entry_number}),
                ));
            }
        }
    }
    None
}

fn run_case<'a>(ctx: &'a Ctx, case: u64, acc: &'a mut Acc) -> CaseFut<'a> {
    Box::pin(async move {
        let mut rng = ctx.rng(case);
        let dir = ctx.case_dir(case);
        let n_peers = rng.gen_range(2..=3);
        let mut sc = match Scenario::new(&dir, ctx.case_seed(case), n_peers, true).await {
            Ok(s) => s,
            Err(e) => {
                acc.inconclusive(format!("scenario start failed: {}", e));
                return;
            }
        };
        if let Err(e) = sc.add_second_room().await {
            acc.inconclusive(e);
            return;
        }
        let rooms = vec![sc.room.id, sc.room2.as_ref().unwrap().id];
        let n_ops = rng.gen_range(8..ctx.tier.pick(18, 30));
        let mut kinds = Vec::new();
        let mut moved = false;
        let mut deleted_earlier = false;
        let mut batchings: BTreeSet<&str> = BTreeSet::new();
        let t_start = sc.t;
        for _ in 0..n_ops {
            let tick = sc.random_tick(&mut rng);
            sc.apply(&tick).await;
            let k = rng.gen_range(0..100);
            let op = if k < 22 {
                if rng.gen_bool(0.25) {
                    Op::Pull2 { dst: rng.gen_range(0..n_peers), src: rng.gen_range(0..n_peers) }
                } else {
                    sc.random_pull(&mut rng)
                }
            } else if k < 34 {
                Op::Move { peer: rng.gen_range(0..n_peers), row: rng.gen_range(0..1000), to_second: rng.gen_bool(0.6) }
            } else if k < 42 {
                Op::StreamCreate { peer: rng.gen_range(0..n_peers), n: rng.gen_range(2..6) }
            } else {
                sc.random_write(&mut rng, true)
            };
            let before_day = day_of(sc.t);
            let out = sc.apply(&op).await;
            let kind = format!("{:?}", op).split_whitespace().next().unwrap_or("").to_string();
            acc.count(&format!("op/{}", kind), 1);
            kinds.push(kind);
            match (&op, &out) {
                (Op::Move { .. }, OpOutcome::Accepted) => moved = true,
                (Op::Update { .. }, OpOutcome::Accepted) if sc.t - t_start >= DAY => moved = true,
                (Op::DeleteNode { .. } | Op::DeleteRef { .. }, OpOutcome::Accepted)
                    if before_day > day_of(t_start) =>
                {
                    deleted_earlier = true
                }
                (Op::StreamCreate { .. }, OpOutcome::Accepted) => {
                    batchings.insert("stream");
                }
                (Op::Pull { .. } | Op::PullBoth { .. } | Op::Pull2 { .. }, OpOutcome::Pulled(_)) => {
                    batchings.insert("pull");
                }
                (_, OpOutcome::Accepted) => {
                    batchings.insert("single");
                }
                _ => {}
            }
            // R1 on every peer after the step (barrier: the op has waited for its own write; the
            // recompute request that follows it is flushed here)
            for (pi, p) in sc.peers.iter().enumerate() {
                p.barrier().await;
                let s = p.snapshot().await;
                acc.count("log_rows_checked", s.daily.len() as u64);
                if let Some((why, w)) = check_log(&s, &rooms) {
                    acc.violation(
                        format!("C09/{}/after-{}", why, kinds.last().unwrap()),
                        json!({"peer": pi, "witness": w, "history": sc.log}),
                    );
                    return;
                }
            }
        }
        // R2 / R3 between peers
        let mut history_hash_differs = false;
        let mut snaps = Vec::new();
        for p in &sc.peers {
            p.recompute().await;
            snaps.push(p.snapshot().await);
        }
        for room in &rooms {
            for i in 0..n_peers {
                for j in (i + 1)..n_peers {
                    let a = room_dump(&snaps[i], room);
                    let b = room_dump(&snaps[j], room);
                    // content as the log sees it: rows, deletion records (references are not logged)
                    let same_content =
                        a.nodes == b.nodes && a.node_del == b.node_del && a.edge_del == b.edge_del;
                    let strip = |d: &BTreeMap<String, String>, with_history: bool| -> BTreeMap<String, String> {
                        d.iter()
                            .filter(|(_, v)| !v.starts_with("n0 dNone"))
                            .map(|(k, v)| {
                                if with_history {
                                    (k.clone(), v.clone())
                                } else {
                                    (k.clone(), v.split(" h").next().unwrap().to_string())
                                }
                            })
                            .collect()
                    };
                    acc.count("peer_pairs_compared", 1);
                    if same_content {
                        acc.count("pairs_with_equal_content", 1);
                        if strip(&a.daily, false) != strip(&b.daily, false) {
                            acc.violation(
                                "C09/equal-content-different-log/entry-count-or-daily-hash",
                                json!({"peers": [i, j], "room": b64(room), "log_a": a.daily, "log_b": b.daily, "history": sc.log}),
                            );
                            return;
                        }
                        if strip(&a.daily, true) != strip(&b.daily, true) {
                            acc.violation(
                                "C09/equal-content-different-log/history-hash",
                                json!({"peers": [i, j], "room": b64(room), "log_a": a.daily, "log_b": b.daily, "history": sc.log}),
                            );
                            history_hash_differs = true;
                        }
                        if a.daily != b.daily {
                            acc.count("pairs_differing_only_by_empty_day_rows", 1);
                        }
                    } else {
                        acc.count("pairs_with_different_content", 1);
                        if strip(&a.daily, false) == strip(&b.daily, false) {
                            acc.violation(
                                "C09/different-content-equal-log",
                                json!({"peers": [i, j], "room": b64(room), "diff": a.content_diff(&b), "log": a.daily, "history": sc.log}),
                            );
                            return;
                        }
                    }
                }
            }
        }
        if history_hash_differs {
            return;
        }
        let nontrivial = moved && deleted_earlier && batchings.len() >= 2;
        let key = if nontrivial {
            let mut h = blake3::Hasher::new();
            for k in &kinds {
                h.update(k.as_bytes());
            }
            Some(hex::encode(&h.finalize().as_bytes()[0..8]))
        } else {
            None
        };
        acc.held(key);
        acc.sample(json!({"peers": n_peers, "history": sc.log.iter().take(30).collect::<Vec<_>>()}));
    })
}
