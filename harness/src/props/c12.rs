//! C12 — Local acceptance and peer acceptance give the same verdict.
use crate::peer::{small_config, Peer};
use crate::props::c01::{perform, pick_row, rand_right, Call, World};
use crate::runner::{Acc, CaseFut, Ctx, PropDef};
use crate::snapshot::{diff, Change, Snapshot};
use crate::sync::{pull, pull_over, FakeServer, PullOpts};
use crate::util::{b64, clock_set, clock_step, day_of, T0};
use crate::world::{GroupSpec, RoomSpec};
use discret::verif::database::daily_log::{DailyLog, RoomDefinitionLog};
use discret::verif::database::edge::Edge;
use discret::verif::database::node::{Node, NodeDeletionEntry, NodeIdentifier};
use discret::verif::security::Uid;
use discret::{Parameters, ParametersAdd};
use rand::Rng;
use serde_json::{json, Value};

pub static DEF: PropDef = PropDef {
    id: "C12",
    level: "exploration",
    rule: "three real instances share two rooms with random rights; instance A performs API operations (create, update own / foreign, move, nested create and update, reference set / add / clear, node and reference deletion, rows around the size limit, rows with nullable fields omitted). Accepted operation: instance B pulls from A and must end with exactly the rows A changed (same versions, same deletions). Refused operation (refused for lack of right or for size): the rows the operation would have produced are built, signed with A's key and served to B by a harness peer; B must not store them. non-trivial = history with both verdicts and a foreign-row operation; distinct = (operation kind, verdict) sets During the history the admin changes the rights / membership of the instance under test (every instance learns it at once), followed by moves, updates and deletions of the rows written before.",
    assumptions: &[
        "refused operations are replayed for the kinds whose produced rows are fully determined: create, update, move, node deletion, reference addition, oversized row",
        "max_object_size_in_kb is set to 2 on every instance so that rows around the limit stay small",
    ],
    cases: |t| t.pick(150, 3000),
    shards: |t| t.pick(12, 16),
    case_budget_s: |_| 300,
    min_conclusive: |t| t.pick(20, 400),
    run_case,
    finish: None,
    worker_threads: 4,
    tokio_per_case: true,
};

const MODEL12: &str = "{
    Person{ name:String, nick:String nullable, parents:[Person], pet:Pet nullable }
    Pet{ name:String }
}
ns {
    Thing{ label:String }
}";

fn short_of(ent: &str) -> &'static str {
    match ent {
        "Person" => "0",
        "Pet" => "1",
        _ => "2.0",
    }
}

async fn serve_rows(victim: &Peer, room: Uid, nodes: Vec<Node>, edges: Vec<Edge>, dels: Vec<NodeDeletionEntry>) {
    let local = match victim.db.get_room_definition(room).await {
        Ok(Some(l)) => l,
        _ => return,
    };
    let mut fs = FakeServer::default();
    let mut max_day = 0;
    let mut days: std::collections::HashMap<(String, i64), u32> = Default::default();
    for n in nodes {
        let k = (n._entity.clone(), day_of(n.mdate));
        *days.entry(k.clone()).or_insert(0) += 1;
        max_day = max_day.max(k.1);
        fs.daily_nodes.entry(k).or_default().push(NodeIdentifier { id: n.id, mdate: n.mdate, signature: n._signature.clone() });
        fs.nodes.insert(n.id, n);
    }
    fs.edges = edges;
    for d in dels {
        let k = (d.entity.clone(), day_of(d.deletion_date));
        *days.entry(k.clone()).or_insert(0) += 1;
        max_day = max_day.max(k.1);
        fs.node_deletions.entry(k).or_default().push(d);
    }
    for ((entity, day), n) in &days {
        fs.room_log.push(DailyLog { room_id: room, date: *day, entity: entity.clone(), entry_number: *n, daily_hash: Some(vec![7; 32]), history_hash: None, need_recompute: false });
    }
    fs.room_definition = Some(RoomDefinitionLog { room_id: room, room_def_date: local.room_def_date, last_data_date: Some(max_day), entry_number: Some(1), daily_hash: Some(vec![1; 32]), history_hash: None });
    let (q, a) = fs.start();
    let _ = pull_over(victim, room, q, a, PullOpts::default()).await;
}

fn holds(s: &Snapshot, n: &Node) -> bool {
    s.nodes.values().any(|x| x.id == n.id && x._signature == n._signature)
}

fn run_case<'a>(ctx: &'a Ctx, case: u64, acc: &'a mut Acc) -> CaseFut<'a> {
    Box::pin(async move {
        let mut rng = ctx.rng(case);
        let dir = ctx.case_dir(case);
        clock_set(T0);
        clock_step(0);
        let mut cfg = small_config();
        cfg.max_object_size_in_kb = 2;
        let mut peers = Vec::new();
        for i in 0..3 {
            match Peer::start(&format!("p{}", i), ctx.case_seed(case), i, MODEL12, &dir.join(format!("p{}", i)), cfg.clone()).await {
                Ok(p) => peers.push(p),
                Err(e) => {
                    acc.inconclusive(e);
                    return;
                }
            }
        }
        let keys: Vec<Vec<u8>> = peers.iter().map(|p| p.id.vkey.clone()).collect();
        let mut w = World { peers, rooms: Vec::new(), t: T0, rows: Vec::new(), counter: 0 };
        for _ in 0..2 {
            let mut rights = Vec::new();
            for e in ["Person", "Pet", "ns.Thing", "*"] {
                if rng.gen_bool(0.7) {
                    rights.push(rand_right(&mut rng, e));
                }
            }
            let groups = vec![GroupSpec {
                name: "g".into(),
                users: vec![(keys[1].clone(), rng.gen_bool(0.9)), (keys[2].clone(), true)],
                user_admins: vec![],
                rights,
            }];
            w.tick(3);
            match w.peers[0].create_room(&RoomSpec { admins: vec![(keys[0].clone(), true)], groups }).await {
                Ok(h) => w.rooms.push(h),
                Err(e) => {
                    acc.inconclusive(e);
                    return;
                }
            }
        }
        w.tick(2);
        if let Err(e) = w.replicate(0).await {
            acc.inconclusive(e);
            return;
        }
        let n_calls = rng.gen_range(10..ctx.tier.pick(22, 40));
        let mut log: Vec<Value> = Vec::new();
        let mut verdicts = std::collections::BTreeSet::new();
        let (mut n_acc, mut n_ref, mut n_foreign) = (0, 0, 0);
        let mut boost = 0;
        for _ in 0..n_calls {
            w.tick(rng.gen_range(1..4000));
            w.counter += 1;
            // now and then the admin changes what A may do in a room (every instance learns it at once); the rows A wrote
            // before are then the interesting targets
            if !w.rows.is_empty() && rng.gen_bool(0.15) {
                let room = rng.gen_range(0..2);
                let edit = if rng.gen_bool(0.5) {
                    crate::world::RoomEdit::User(0, keys[1].clone(), rng.gen_bool(0.4))
                } else {
                    let e = ["Person", "Pet", "ns.Thing", "*"][rng.gen_range(0..4)];
                    crate::world::RoomEdit::Right(0, rand_right(&mut rng, e))
                };
                let mut h = w.rooms[room].clone();
                if w.peers[0].edit_room(&mut h, &edit).await.is_ok() {
                    w.rooms[room] = h;
                    w.tick(2);
                    if let Err(e) = w.replicate(0).await {
                        acc.inconclusive(e);
                        return;
                    }
                    acc.count("room_edits", 1);
                    log.push(json!({"t": w.t, "admin changes the room": room, "edit": edit.describe()}));
                    boost = 3;
                    w.tick(rng.gen_range(1..4000));
                }
            }
            // A (peer 1) is the instance under test; the admin creates rows so that A meets foreign rows
            let caller = if boost > 0 || !rng.gen_bool(0.25) { 1 } else { 0 };
            let nrows = w.rows.len();
            let mut k = rng.gen_range(0..100);
            if boost > 0 && nrows > 0 {
                boost -= 1;
                k = [50, 50, 40, 90][rng.gen_range(0..4)];
            }
            let r = rng.gen_range(0..1000);
            let r2 = rng.gen_range(0..1000);
            let room = rng.gen_range(0..2);
            let mut big: Option<usize> = None;
            let call = if nrows == 0 || k < 18 {
                Call::Create { room, ent: ["Person", "Pet", "ns.Thing"][rng.gen_range(0..3)] }
            } else if k < 28 {
                big = Some(rng.gen_range(1780..1960));
                Call::Create { room, ent: "Person" }
            } else if k < 44 {
                Call::Update { row: r }
            } else if k < 54 {
                Call::Move { row: r, to: room }
            } else if k < 60 {
                Call::Nested { room, sub_room: if rng.gen_bool(0.5) { Some(1 - room) } else { None } }
            } else if k < 66 {
                Call::NestedUpdate { row: r, pet: r2 }
            } else if k < 73 {
                Call::SetPet { row: r, pet: r2 }
            } else if k < 80 {
                Call::AddParent { row: r, parent: r2 }
            } else if k < 84 {
                Call::ClearParents { row: r }
            } else if k < 93 {
                Call::DeleteNode { row: r }
            } else {
                Call::DeleteRef { row: r, parent: r2 }
            };
            let before = w.peers[caller].snapshot().await;
            let t = w.t;
            let res = if let Some(len) = big {
                // row around the size limit
                let mut p = Parameters::new();
                p.add("room", w.rooms[room].id64()).unwrap();
                p.add("v", "y".repeat(len)).unwrap();
                match w.peers[caller].mutate("mutate { Person{ room_id:$room name:$v } }", Some(p)).await {
                    Ok(res) => {
                        let v: Value = serde_json::from_str(&res).unwrap();
                        let id: Uid = crate::util::unb64(v["Person"]["id"].as_str().unwrap()).try_into().unwrap();
                        Ok(vec![(id, "Person")])
                    }
                    Err(e) => Err(e),
                }
            } else {
                perform(&mut w, caller, &call).await
            };
            w.peers[caller].barrier().await;
            let after = w.peers[caller].snapshot().await;
            let changes = diff(&before, &after);
            let kind = if big.is_some() { "create-near-size-limit" } else { call.kind() };
            acc.count(&format!("call/{}", kind), 1);
            if let Call::Update { row } | Call::DeleteNode { row } | Call::Move { row, .. } = &call {
                if nrows > 0 {
                    let id = w.rows[*row % nrows].0;
                    if before.nodes.iter().any(|(k, n)| k.0 == id && n.verifying_key != keys[caller]) {
                        n_foreign += 1;
                    }
                }
            }
            log.push(json!({"t": t - T0, "caller": caller, "call": format!("{:?}", call).chars().take(120).collect::<String>(), "size": big, "result": match &res { Ok(_) => "accepted".to_string(), Err(e) => format!("refused: {}", e.chars().take(70).collect::<String>()) }}));
            let witness = |why: Value, log: &Vec<Value>, w: &World| json!({"why": why, "rooms": w.rooms.iter().map(|r| json!({"id": r.id64(), "model": r.model.describe()})).collect::<Vec<_>>(), "history": log});
            match res {
                Ok(created) => {
                    n_acc += 1;
                    verdicts.insert(format!("{}+", kind));
                    for c in created {
                        w.rows.push(c);
                    }
                    // B (peer 2) pulls from the caller, both rooms
                    w.tick(1);
                    let mut pull_notes: Vec<String> = Vec::new();
                    for rm in &w.rooms {
                        let st = pull(&w.peers[2], &w.peers[caller], rm.id, PullOpts::default()).await;
                        pull_notes.push(format!("requests={:?} nodes={} edges={} node_del={} edge_del={} error={:?}", st.requests, st.nodes, st.edges, st.node_deletions, st.edge_deletions, st.error));
                    }
                    let b = w.peers[2].snapshot().await;
                    for c in &changes {
                        let problem: Option<String> = match c {
                            Change::NodeAdded(n) | Change::NodeChanged(_, n) => {
                                if n.room_id.is_some() && !holds(&b, n) {
                                    Some(format!("row version {} not stored by the peer", b64(&n.id)))
                                } else {
                                    None
                                }
                            }
                            Change::NodeRemoved(n) => {
                                if n.room_id.is_some() && b.nodes.values().any(|x| x.id == n.id && x.mdate <= n.mdate) {
                                    Some(format!("deleted row {} still visible on the peer", b64(&n.id)))
                                } else {
                                    None
                                }
                            }
                            Change::EdgeAdded(e) => {
                                let src_in_room = after.nodes.values().any(|x| x.id == e.src && x.room_id.is_some());
                                if src_in_room && !b.edges.contains_key(&(e.src, e.label.clone(), e.dest)) {
                                    Some(format!("reference {}-{}->{} not stored by the peer", b64(&e.src), e.label, b64(&e.dest)))
                                } else {
                                    None
                                }
                            }
                            Change::EdgeRemoved(e) => {
                                let src_in_room = before.nodes.values().any(|x| x.id == e.src && x.room_id.is_some());
                                // a reference whose source or target row is gone cannot be observed
                                let dest_exists = b.nodes.values().any(|x| x.id == e.dest)
                                    && b.nodes.values().any(|x| x.id == e.src);
                                if src_in_room && dest_exists && b.edges.contains_key(&(e.src, e.label.clone(), e.dest)) {
                                    Some(format!("removed reference {}-{}->{} still on the peer", b64(&e.src), e.label, b64(&e.dest)))
                                } else {
                                    None
                                }
                            }
                            _ => None,
                        };
                        acc.count("accepted_changes_checked_on_peer", 1);
                        if let Some(p) = problem {
                            let what = match c {
                                Change::NodeRemoved(_) => "deletion",
                                Change::EdgeAdded(_) | Change::EdgeRemoved(_) => "reference",
                                _ => "row",
                            };
                            // mechanism: the local path judges the removal of a reference by the authorship of the row that
                            // carries it, the peer path by the authorship of the reference itself
                            let mut sig = format!("C12/accepted-locally-refused-by-peer/{}/{}", kind, what);
                            if let Change::EdgeRemoved(e) = c {
                                let src_room = after.nodes.values().find(|x| x.id == e.src).and_then(|x| x.room_id);
                                let model = src_room.and_then(|r| w.rooms.iter().find(|h| h.id == r)).map(|h| &h.model);
                                let ent_name = crate::props::c01::entity_name(&e.src_entity).unwrap_or("?");
                                if let Some(m) = model {
                                    if e.verifying_key != keys[caller] && !m.can(&keys[caller], ent_name, t, crate::rights::Right::All) && m.can(&keys[caller], ent_name, t, crate::rights::Right::Own) {
                                        sig = "C12/accepted-locally-refused-by-peer/reference-removal/reference-of-another-author-removed-from-an-own-row-with-the-own-rows-right-only".to_string();
                                    }
                                }
                            }
                            acc.violation(
                                sig,
                                witness(json!({"problem": p, "change": c.describe(), "pulls": pull_notes}), &log, &w),
                            );
                            return;
                        }
                    }
                    if let Err(e) = w.replicate(caller).await {
                        acc.inconclusive(e);
                        return;
                    }
                }
                Err(e) => {
                    n_ref += 1;
                    verdicts.insert(format!("{}-", kind));
                    let authorisation = e.contains("not enough right") || e.contains("larger than the maximum");
                    if !authorisation {
                        continue;
                    }
                    let id = &w.peers[caller].id;
                    // build what the operation would have produced, signed by the caller
                    let mut nodes = Vec::new();
                    let mut edges = Vec::new();
                    let mut dels = Vec::new();
                    let mut room_to_sync = w.rooms[room].id;
                    let mk_new = |room: Uid, ent: &str, val: String| {
                        let mut nid = [0u8; 16];
                        nid.copy_from_slice(&blake3::hash(format!("{}{}", t, val.len()).as_bytes()).as_bytes()[0..16]);
                        let mut n = Node { id: nid, room_id: Some(room), cdate: t, mdate: t, _entity: short_of(ent).to_string(), _json: Some(format!("{{\"32\":\"{}\"}}", val)), _binary: None, verifying_key: vec![], _signature: vec![], _local_id: None };
                        n.sign(&id.signing).unwrap();
                        n
                    };
                    match (&call, big) {
                        (_, Some(len)) => nodes.push(mk_new(w.rooms[room].id, "Person", "y".repeat(len))),
                        (Call::Create { room, ent }, None) => nodes.push(mk_new(w.rooms[*room].id, ent, "refused".into())),
                        (Call::Update { row }, None) | (Call::Move { row, .. }, None) => {
                            let rid = w.rows[*row % nrows.max(1)].0;
                            if let Some(old) = before.nodes.values().find(|x| x.id == rid) {
                                let mut n = old.clone();
                                n.mdate = t;
                                n._json = Some("{\"32\":\"refused update\"}".into());
                                if let Call::Move { to, .. } = &call {
                                    n.room_id = Some(w.rooms[*to].id);
                                }
                                n._local_id = None;
                                n.sign(&id.signing).unwrap();
                                room_to_sync = n.room_id.unwrap_or(room_to_sync);
                                nodes.push(n);
                            }
                        }
                        (Call::DeleteNode { row }, None) => {
                            let rid = w.rows[*row % nrows.max(1)].0;
                            if let Some(old) = before.nodes.values().find(|x| x.id == rid) {
                                if let Some(r) = old.room_id {
                                    room_to_sync = r;
                                    dels.push(NodeDeletionEntry::build(r, old, t, &id.signing));
                                }
                            }
                        }
                        (Call::AddParent { row, parent }, None) => {
                            if let (Some(src), Some(dst)) = (pick_row(&w, "Person", *row), pick_row(&w, "Person", *parent)) {
                                if let Some(old) = before.nodes.values().find(|x| x.id == src) {
                                    if let Some(r) = old.room_id {
                                        room_to_sync = r;
                                        let mut n = old.clone();
                                        n.mdate = t;
                                        n._local_id = None;
                                        n.sign(&id.signing).unwrap();
                                        nodes.push(n);
                                        let mut e = Edge { src, src_entity: "0".into(), label: "34".into(), dest: dst, cdate: t, verifying_key: vec![], signature: vec![] };
                                        e.sign(&id.signing).unwrap();
                                        edges.push(e);
                                    }
                                }
                            }
                        }
                        _ => {}
                    }
                    if nodes.is_empty() && edges.is_empty() && dels.is_empty() {
                        continue;
                    }
                    acc.count(&format!("refused_replayed/{}", kind), 1);
                    let bb = w.peers[2].snapshot().await;
                    let nodes_c = nodes.clone();
                    let edges_c = edges.clone();
                    let del_ids: Vec<(Uid, Vec<u8>)> = dels.iter().map(|d| (d.id, d.signature.clone())).collect();
                    serve_rows(&w.peers[2], room_to_sync, nodes, edges, dels).await;
                    let ba = w.peers[2].snapshot().await;
                    let mut stored: Option<&str> = None;
                    if nodes_c.iter().any(|n| holds(&ba, n) && !holds(&bb, n)) {
                        stored = Some("row");
                    }
                    if edges_c.iter().any(|e| ba.edges.get(&(e.src, e.label.clone(), e.dest)).map(|x| x.signature == e.signature).unwrap_or(false)) {
                        stored = Some("reference");
                    }
                    if del_ids.iter().any(|(_, sig)| ba.node_del.values().any(|x| &x.signature == sig)) {
                        stored = Some("deletion");
                    }
                    if let Some(what) = stored {
                        acc.violation(
                            format!("C12/refused-locally-accepted-from-peer/{}/{}", kind, what),
                            witness(json!({"local_error": e}), &log, &w),
                        );
                        return;
                    }
                }
            }
        }
        let key = if n_acc > 0 && n_ref > 0 && n_foreign > 0 {
            Some(verdicts.iter().cloned().collect::<Vec<_>>().join(","))
        } else {
            None
        };
        for v in &verdicts {
            acc.distinct("kind_verdict", v.clone());
        }
        acc.held(key);
        acc.sample(json!({"history": log.iter().take(20).collect::<Vec<_>>()}));
    })
}
