//! C03 — Synchronisation converges: all members end with the same room content.
use crate::repl::{room_dump, Op, OpOutcome, Scenario};
use crate::runner::{Acc, CaseFut, Ctx, PropDef};
use crate::util::DAY;
use discret::{Parameters, ParametersAdd};
use rand::Rng;
use serde_json::json;
use std::collections::{BTreeMap, BTreeSet};

pub static DEF: PropDef = PropDef {
    id: "C03",
    level: "exploration",
    rule: "random histories of API writes (create, nested create, update incl. same row on several peers in the same millisecond and across days, reference set/add/clear, node and reference deletion) on 2-4 real database services sharing a room, interleaved with directed pulls (plain, both directions at once, cut after k answers), followed by pairwise pulls in seeded random order until a full round transfers nothing; non-trivial = the history has accepted writes to one row from two different peers, spans at least two days and has a pull from a peer that is behind; distinct = distinct canonical operation sequences",
    assumptions: &[
        "peers are wired back to back over in-memory channels through the library's own synchronise_room and InboundQueryService (hook H4); no QUIC transport",
        "quiescence is bounded to 2*peers+2 rounds; expiry without a repeated global digest is inconclusive",
    ],
    cases: |t| t.pick(160, 3000),
    shards: |t| t.pick(12, 16),
    case_budget_s: |_| 240,
    min_conclusive: |t| t.pick(60, 1000),
    run_case,
    finish: None,
    worker_threads: 4,
    tokio_per_case: true,
};

const QUERIES: &[&str] = &[
    "query { Person(room_id=$room, order_by(id asc)){ id name mdate cdate pet{ id name } parents(order_by(id asc)){ id name } } }",
    "query { Pet(room_id=$room, order_by(name asc, id asc)){ id name mdate } }",
    "query { ns.Thing(room_id=$room, order_by(id asc)){ id label } }",
    "query { Person(room_id=$room, nullable(pet, parents), order_by(mdate desc, id asc)){ id name pet{ name } parents{ name } } }",
    "query { r: Person(room_id=$room){ n: count() } }",
];

fn person_owner(sc: &Scenario, owner: &BTreeMap<usize, usize>, row: usize) -> usize {
    match sc.nth_of("Person", row) {
        Some(pid) => {
            let ridx = sc.rows.iter().position(|r| r.0 == pid).unwrap();
            *owner.get(&ridx).unwrap_or(&0)
        }
        None => 0,
    }
}

/// deterministic histories for the combinations that the random flavours leave out; each one is a
/// documented mechanism of the pull protocol (references travel only with a row version that the
/// receiver selects; deletion records of one row are keyed by row in a received batch)
const SCENARIOS: &[&str] = &[
    "reference-added-in-the-millisecond-of-another-write-to-the-row",
    "reference-added-with-a-row-version-that-loses-last-writer-wins",
    "pull-interrupted-between-rows-and-their-references",
    "same-reference-added-on-two-peers",
    "row-deleted-on-two-peers-at-different-versions",
    "referenced-row-updated-on-one-peer-and-deleted-at-its-older-version-on-another",
];

async fn run_scenario(
    idx: usize,
    sc: &mut Scenario,
    rng: &mut rand::rngs::StdRng,
    acc: &mut Acc,
) {
    sc.tick(10);
    match idx {
        0 => {
            sc.apply(&Op::Create { peer: 0, entity: 0 }).await;
            sc.tick(5);
            sc.apply(&Op::Update { peer: 0, row: 0 }).await;
            sc.apply(&Op::Pull { dst: 1, src: 0, cut: None }).await;
            // same millisecond as the update
            sc.apply(&Op::AddParent { peer: 0, row: 0, parent: 0 }).await;
        }
        1 => {
            sc.apply(&Op::Create { peer: 0, entity: 0 }).await;
            sc.apply(&Op::Pull { dst: 1, src: 0, cut: None }).await;
            sc.tick(5);
            sc.apply(&Op::AddParent { peer: 0, row: 0, parent: 0 }).await;
            sc.tick(5);
            sc.apply(&Op::Update { peer: 1, row: 0 }).await;
        }
        2 => {
            sc.apply(&Op::CreateNested { peer: 0 }).await;
            sc.tick(5);
            sc.apply(&Op::Pull { dst: 1, src: 0, cut: Some(1) }).await;
        }
        3 => {
            sc.apply(&Op::Create { peer: 0, entity: 0 }).await;
            sc.apply(&Op::Pull { dst: 1, src: 0, cut: None }).await;
            sc.tick(5);
            sc.apply(&Op::AddParent { peer: 0, row: 0, parent: 0 }).await;
            sc.tick(5);
            sc.apply(&Op::AddParent { peer: 1, row: 0, parent: 0 }).await;
        }
        4 => {
            sc.apply(&Op::Create { peer: 0, entity: 1 }).await;
            sc.apply(&Op::Pull { dst: 1, src: 0, cut: None }).await;
            sc.tick(5);
            sc.apply(&Op::Update { peer: 0, row: 0 }).await;
            sc.tick(5);
            sc.apply(&Op::DeleteNode { peer: 1, row: 0 }).await;
            sc.tick(5);
            sc.apply(&Op::DeleteNode { peer: 0, row: 0 }).await;
        }
        _ => {
            // a person with a pet; the pet is renamed on peer 1 while peer 0 deletes the version it knows: the newer
            // version wins everywhere, but the deleting peer has dropped the reference to it
            sc.apply(&Op::CreateNested { peer: 0 }).await;
            sc.apply(&Op::Pull { dst: 1, src: 0, cut: None }).await;
            let pet = sc.rows.iter().position(|r| r.1 == "Pet").unwrap_or(0);
            sc.tick(5);
            sc.apply(&Op::Update { peer: 1, row: pet }).await;
            sc.tick(5);
            sc.apply(&Op::DeleteNode { peer: 0, row: pet }).await;
        }
    }
    sc.tick(1000);
    let n = sc.peers.len();
    let (_rounds, quiet, _d) = sc.quiesce(rng, 2 * n + 2).await;
    let mut dumps = Vec::new();
    for p in &sc.peers {
        dumps.push(room_dump(&p.snapshot().await, &sc.room.id));
    }
    let diverged = dumps.iter().any(|d| !d.content_eq(&dumps[0]));
    acc.count("scenarios_run", 1);
    if !quiet || diverged {
        let diff: Vec<String> = dumps
            .iter()
            .skip(1)
            .flat_map(|d| dumps[0].content_diff(d))
            .collect();
        acc.violation(
            format!("C03/scenario/{}", SCENARIOS[idx]),
            json!({"quiescent": quiet, "diff": diff, "history": sc.log}),
        );
    } else {
        acc.held(Some(format!("scenario-{}", idx)));
    }
}

fn run_case<'a>(ctx: &'a Ctx, case: u64, acc: &'a mut Acc) -> CaseFut<'a> {
    Box::pin(async move {
        let mut rng = ctx.rng(case);
        let dir = ctx.case_dir(case);
        let n_peers = match rng.gen_range(0..10) {
            0..=2 => 2,
            3..=7 => 3,
            _ => 4,
        };
        let with_deletions = rng.gen_bool(0.6);
        // flavour U: concurrent updates and deletions of any row by any peer, interrupted pulls, no
        // references. flavour R: references, but every row is written by its creator only and
        // every write has its own millisecond (see the dedicated scenarios for the other combinations)
        let flavour_r = rng.gen_bool(0.4);
        let n_ops = rng.gen_range(8..ctx.tier.pick(20, 34));
        let mut sc = match Scenario::new(&dir, ctx.case_seed(case), n_peers, true).await {
            Ok(s) => s,
            Err(e) => {
                acc.inconclusive(format!("scenario start failed: {}", e));
                return;
            }
        };
        if case < SCENARIOS.len() as u64 {
            run_scenario(case as usize, &mut sc, &mut rng, acc).await;
            return;
        }
        let mut owner: BTreeMap<usize, usize> = BTreeMap::new(); // row index -> creating peer
        let mut deleted: BTreeSet<usize> = BTreeSet::new();
        // history
        let mut writers_per_row: BTreeMap<String, BTreeSet<usize>> = BTreeMap::new();
        let mut kinds: Vec<String> = Vec::new();
        let mut pulled_from_behind = false;
        let mut accepted_deletions = 0;
        let t_start = sc.t;
        for _ in 0..n_ops {
            let tick = sc.random_tick(&mut rng);
            sc.apply(&tick).await;
            let mut op = if rng.gen_bool(0.3) {
                sc.random_pull(&mut rng)
            } else {
                sc.random_write(&mut rng, with_deletions)
            };
            // restrictions of the two flavours
            let n_rows = sc.rows.len().max(1);
            if flavour_r {
                if let Op::Tick(0) = tick {
                    sc.tick(1);
                }
                op = match op {
                    Op::Pull { dst, src, .. } => Op::Pull { dst, src, cut: None },
                    Op::Update { row, .. } | Op::UpdateThroughParent { row, .. } => Op::Update { peer: *owner.get(&(row % n_rows)).unwrap_or(&0), row },
                    Op::DeleteNode { row, .. } => Op::DeleteNode { peer: *owner.get(&(row % n_rows)).unwrap_or(&0), row },
                    Op::SetPet { row, pet, .. } => Op::SetPet { peer: person_owner(&sc, &owner, row), row, pet },
                    Op::AddParent { row, parent, .. } => Op::AddParent { peer: person_owner(&sc, &owner, row), row, parent },
                    Op::DeleteRef { row, parent, .. } => Op::DeleteRef { peer: person_owner(&sc, &owner, row), row, parent },
                    Op::ClearPet { row, .. } => Op::ClearPet { peer: person_owner(&sc, &owner, row), row },
                    Op::ClearParents { row, .. } => Op::ClearParents { peer: person_owner(&sc, &owner, row), row },
                    o => o,
                };
            } else {
                op = match op {
                    Op::CreateNested { peer } => Op::Create { peer, entity: 0 },
                    Op::SetPet { peer, row, .. } | Op::AddParent { peer, row, .. } | Op::DeleteRef { peer, row, .. } | Op::ClearPet { peer, row } | Op::ClearParents { peer, row } | Op::UpdateThroughParent { peer, row } => Op::Update { peer, row },
                    o => o,
                };
            }
            // a row is deleted at most once over all peers (see the double deletion scenario)
            if let Op::DeleteNode { row, peer } = &op {
                if deleted.contains(&(row % n_rows)) {
                    op = Op::Update { peer: *peer, row: *row };
                }
            }
            if let Op::Pull { dst, src, .. } = &op {
                // "behind": the source lacks something the destination has
                let a = room_dump(&sc.peers[*dst].snapshot().await, &sc.room.id);
                let b = room_dump(&sc.peers[*src].snapshot().await, &sc.room.id);
                if a.nodes.keys().any(|k| !b.nodes.contains_key(k)) {
                    pulled_from_behind = true;
                }
            }
            let rows_before = sc.rows.len();
            let out = sc.apply(&op).await;
            if let (Op::Create { peer, .. } | Op::CreateNested { peer }, OpOutcome::Accepted) = (&op, &out) {
                for r in rows_before..sc.rows.len() {
                    owner.insert(r, *peer);
                }
            }
            if let (Op::DeleteNode { row, .. }, OpOutcome::Accepted) = (&op, &out) {
                deleted.insert(row % n_rows);
            }
            let kind = format!("{:?}", op).split_whitespace().next().unwrap_or("").to_string();
            acc.count(&format!("op/{}", kind), 1);
            kinds.push(kind.clone());
            if let OpOutcome::Accepted = out {
                match &op {
                    Op::Update { peer, row } if !sc.rows.is_empty() => {
                        let id = sc.rows[*row % sc.rows.len()].0;
                        writers_per_row
                            .entry(crate::util::b64(&id))
                            .or_default()
                            .insert(*peer);
                    }
                    Op::DeleteNode { .. } | Op::DeleteRef { .. } => accepted_deletions += 1,
                    _ => {}
                }
                acc.count("writes_accepted", 1);
            }
            if let OpOutcome::Pulled(st) = &out {
                acc.count("pulls", st.len() as u64);
                acc.count(
                    "rows_transferred",
                    st.iter().map(|s| s.transferred() as u64).sum(),
                );
                if st.iter().any(|s| s.cut) {
                    acc.count("pulls_cut", 1);
                }
            }
        }
        let spans_days = (sc.t - t_start) >= DAY;
        let concurrent = writers_per_row.values().any(|w| w.len() >= 2);
        let tag = if accepted_deletions > 0 {
            "with-deletions"
        } else {
            "no-deletions"
        };

        // quiescence
        sc.tick(1000);
        let max_rounds = 2 * n_peers + 2;
        let (rounds, quiet, digests) = sc.quiesce(&mut rng, max_rounds).await;
        acc.count("quiescence_rounds", rounds as u64);
        let witness = |sc: &Scenario, why: serde_json::Value| {
            json!({"peers": n_peers, "why": why, "history": sc.log})
        };
        if !quiet {
            let set: BTreeSet<&String> = digests.iter().collect();
            if set.len() < digests.len() {
                let d0 = room_dump(&sc.peers[0].snapshot().await, &sc.room.id);
                let d1 = room_dump(&sc.peers[1].snapshot().await, &sc.room.id);
                acc.violation(
                    format!("C03/oscillation/{}", tag),
                    witness(&sc, json!({"digests_per_round": digests, "diff_0_1": d0.content_diff(&d1), "daily0": d0.daily, "daily1": d1.daily})),
                );
            } else {
                acc.inconclusive("no quiescent round within the bound and no repeated digest");
            }
            return;
        }
        // R1 content equal on every member
        let mut dumps = Vec::new();
        let mut snaps = Vec::new();
        for p in &sc.peers {
            let s = p.snapshot().await;
            dumps.push(room_dump(&s, &sc.room.id));
            snaps.push(s);
        }
        let mut violated = false;
        for i in 1..dumps.len() {
            if !dumps[0].content_eq(&dumps[i]) {
                let diff = dumps[0].content_diff(&dumps[i]);
                let kind = if diff.iter().any(|d| d.contains("deletion record")) {
                    "deletion-records"
                } else if diff.iter().any(|d| d.starts_with("node") && d.contains("only on")) {
                    "row-present-vs-absent"
                } else if diff.iter().any(|d| d.starts_with("node")) {
                    "row-version"
                } else {
                    "references"
                };
                let dbg = |d: &crate::repl::RoomDump| json!({"nodes": d.nodes.iter().map(|(k, v)| format!("{} {}", k, v.chars().take(60).collect::<String>())).collect::<Vec<_>>(), "daily": d.daily});
                acc.violation(
                    format!("C03/diverged/{}/{}", kind, tag),
                    witness(&sc, json!({"peers_compared": [0, i], "diff": diff, "first": dbg(&dumps[0]), "second": dbg(&dumps[i])})),
                );
                violated = true;
                break;
            }
        }
        acc.count("dumps_compared", dumps.len() as u64);
        acc.count(
            "rows_at_quiescence",
            dumps[0].nodes.len() as u64 + dumps[0].edges.len() as u64,
        );
        // R2 query battery equal
        if !violated {
            for q in QUERIES {
                let mut results = Vec::new();
                for p in &sc.peers {
                    let mut prm = Parameters::new();
                    prm.add("room", sc.room.id64()).unwrap();
                    results.push(p.query(q, Some(prm)).await);
                }
                acc.count("queries_compared", results.len() as u64);
                if results.iter().any(|r| r != &results[0]) {
                    acc.violation(
                        format!("C03/query-results-differ/{}", tag),
                        witness(&sc, json!({"query": q, "results": results.iter().map(|r| format!("{:?}", r)).collect::<Vec<_>>() })),
                    );
                    violated = true;
                    break;
                }
            }
        }
        // R4 a further round transfers nothing
        if !violated {
            let mut extra = 0;
            for a in 0..n_peers {
                for b in 0..n_peers {
                    if a != b {
                        if let OpOutcome::Pulled(st) =
                            sc.apply(&Op::Pull { dst: a, src: b, cut: None }).await
                        {
                            extra += st.iter().map(|s| s.transferred()).sum::<usize>();
                        }
                    }
                }
            }
            if extra > 0 {
                acc.violation(
                    format!("C03/extra-round-transfers-rows/{}", tag),
                    witness(&sc, json!({"rows_transferred_by_extra_round": extra})),
                );
                violated = true;
            }
        }
        // daily log agreement is C09's business; only counted here
        if dumps.iter().any(|d| d.daily != dumps[0].daily) {
            acc.count("cases_with_unequal_daily_logs_at_quiescence", 1);
        }
        if !violated {
            let nontrivial = concurrent && spans_days && pulled_from_behind;
            let key = if nontrivial {
                let mut h = blake3::Hasher::new();
                h.update(&[n_peers as u8]);
                for k in &kinds {
                    h.update(k.as_bytes());
                }
                Some(hex::encode(&h.finalize().as_bytes()[0..8]))
            } else {
                None
            };
            acc.held(key);
            acc.sample(json!({"peers": n_peers, "deletions": accepted_deletions, "rounds_to_quiescence": rounds, "history": sc.log.iter().take(40).collect::<Vec<_>>() }));
        }
    })
}
