//! C02 — Rows received from peers are stored only if their author had the right.
//!
//! The victim runs the library's own synchronise_room; the serving side is a harness FakeServer that
//! answers with batches mixing honest rows with rows signed by keys that lack the needed right.
use crate::peer::{small_config, Identity, Peer};
use crate::props::c10::compare;
use crate::rights::Right;
use crate::runner::{Acc, CaseFut, Ctx, PropDef};
use crate::snapshot::Snapshot;
use crate::sync::{pull, pull_over, FakeServer, PullOpts};
use crate::util::{b64, clock_set, clock_step, day_of, short, DAY, T0};
use crate::world::{GroupSpec, RightSpec, RoomEdit, RoomHandle, RoomSpec, MODEL};
use discret::verif::database::daily_log::{DailyLog, RoomDefinitionLog};
use discret::verif::database::edge::{Edge, EdgeDeletionEntry};
use discret::verif::database::node::{Node, NodeDeletionEntry, NodeIdentifier};
use discret::verif::security::Uid;
use rand::rngs::StdRng;
use rand::seq::SliceRandom;
use rand::Rng;
use serde_json::{json, Value};
use std::collections::HashMap;

pub static DEF: PropDef = PropDef {
    id: "C02",
    level: "exploration",
    rule: "a victim instance, member of two rooms, pulls room R from a harness-controlled serving peer; each batch mixes honest rows with rows that must be refused: signed by an outsider, by a member disabled at the row's date, by a member with own-rows only replacing or deleting another author's row, carrying another room id, an unknown entity, a model-violating or oversized JSON, a tampered field, a system entity through the data path, references whose source row is in another room or in no room (another room's definition row), deletion records by authors without the right; batches are shuffled. Oracle per row from the independent rights model; a row that must be refused must leave no trace, whatever else is in the batch; once per case the decisions of the other room are compared before/after and after a restart. non-trivial = batch with at least one row the oracle accepts and one it rejects, of two kinds; distinct = set of row kinds of the batch Also offered: a row of the second room moved into the room under test by an author entitled in both rooms (must be stored) and by an author who has lost the right in the room it leaves (must not); rows of a wrong entity announced under another entity so that they travel in the same answer as honest rows. A deletion record for another author's row whose version date differs from the stored one by a millisecond.",
    assumptions: &[
        "safety direction only: a row that should be stored but is dropped (e.g. because a companion row made the signature check of the whole answer fail) is not reported here",
        "entity short names: 0=Person 1=Pet 2.0=ns.Thing 0.0=sys.Room 0.2=sys.UserAuth",
    ],
    cases: |t| t.pick(200, 3000),
    shards: |t| t.pick(12, 16),
    case_budget_s: |_| 240,
    min_conclusive: |t| t.pick(20, 400),
    run_case,
    finish: None,
    worker_threads: 4,
    tokio_per_case: true,
};

enum Item {
    N(Node),
    E(Edge),
    ND(NodeDeletionEntry),
    ED(EdgeDeletionEntry),
}

struct Offered {
    kind: &'static str,
    should_store: bool,
    item: Item,
}

fn uid(rng: &mut StdRng) -> Uid {
    let mut id = [0u8; 16];
    rng.fill(&mut id);
    id
}

fn node(id: Uid, room: Uid, entity: &str, json: String, cdate: i64, mdate: i64, who: &Identity) -> Node {
    let mut n = Node {
        id,
        room_id: Some(room),
        cdate,
        mdate,
        _entity: entity.to_string(),
        _json: Some(json),
        _binary: None,
        verifying_key: vec![],
        _signature: vec![],
        _local_id: None,
    };
    n.sign(&who.signing).unwrap();
    n
}

fn edge(src: Uid, src_entity: &str, label: &str, dest: Uid, cdate: i64, who: &Identity) -> Edge {
    let mut e = Edge {
        src,
        src_entity: src_entity.to_string(),
        label: label.to_string(),
        dest,
        cdate,
        verifying_key: vec![],
        signature: vec![],
    };
    e.sign(&who.signing).unwrap();
    e
}

fn present(s: &Snapshot, item: &Item) -> bool {
    match item {
        Item::N(n) => s
            .nodes
            .values()
            .any(|x| x.id == n.id && x._signature == n._signature),
        Item::E(e) => s
            .edges
            .get(&(e.src, e.label.clone(), e.dest))
            .map(|x| x.signature == e.signature)
            .unwrap_or(false),
        Item::ND(d) => s.node_del.values().any(|x| x.signature == d.signature),
        Item::ED(d) => s.edge_del.values().any(|x| x.signature == d.signature),
    }
}

fn trace_of(s: &Snapshot, item: &Item) -> Option<String> {
    if present(s, item) {
        return Some("stored".to_string());
    }
    None
}

/// serve one batch of items for room `room` to the victim
async fn serve(victim: &Peer, room: Uid, items: &[Offered], rng: &mut StdRng) -> Result<(), String> {
    let local = victim
        .db
        .get_room_definition(room)
        .await
        .map_err(|e| e.to_string())?
        .ok_or("victim does not know the room")?;
    let mut fs = FakeServer::default();
    let mut days: HashMap<(String, i64), u32> = HashMap::new();
    let mut max_day = 0;
    for o in items {
        match &o.item {
            Item::N(n) => {
                // a malicious serving peer may announce a row under another entity than its own, so that it travels in
                // the same answer as honest rows of that entity
                let announced = if matches!(o.kind, "entity-without-right" | "unknown-entity" | "system-entity-through-the-data-path" | "model-violating-json") && rng.gen_bool(0.5) { "0".to_string() } else { n._entity.clone() };
                let k = (announced, day_of(n.mdate));
                *days.entry(k.clone()).or_insert(0) += 1;
                fs.daily_nodes.entry(k).or_default().push(NodeIdentifier {
                    id: n.id,
                    mdate: n.mdate,
                    signature: n._signature.clone(),
                });
                fs.nodes.insert(n.id, n.clone());
                max_day = max_day.max(day_of(n.mdate));
            }
            Item::E(e) => fs.edges.push(e.clone()),
            Item::ND(d) => {
                let k = (d.entity.clone(), day_of(d.deletion_date));
                *days.entry(k.clone()).or_insert(0) += 1;
                let copy = NodeDeletionEntry {
                    room_id: d.room_id,
                    id: d.id,
                    entity: d.entity.clone(),
                    mdate: d.mdate,
                    deletion_date: d.deletion_date,
                    verifying_key: d.verifying_key.clone(),
                    signature: d.signature.clone(),
                    entity_name: None,
            enable_full_text: false,
                };
                fs.node_deletions.entry(k).or_default().push(copy);
                max_day = max_day.max(day_of(d.deletion_date));
            }
            Item::ED(d) => {
                let k = (d.src_entity.clone(), day_of(d.deletion_date));
                *days.entry(k.clone()).or_insert(0) += 1;
                let copy = EdgeDeletionEntry {
                    room_id: d.room_id,
                    src: d.src,
                    src_entity: d.src_entity.clone(),
                    dest: d.dest,
                    label: d.label.clone(),
                    cdate: d.cdate,
                    deletion_date: d.deletion_date,
                    verifying_key: d.verifying_key.clone(),
                    signature: d.signature.clone(),
                    entity_name: None,
                };
                fs.edge_deletions.entry(k).or_default().push(copy);
                max_day = max_day.max(day_of(d.deletion_date));
            }
        }
    }
    // edges travel with a row the victim selects: make sure the source of every edge is offered as an
    // identifier (a newer version the server then does not deliver is enough)
    for o in items {
        if let Item::E(e) = &o.item {
            if !fs.nodes.contains_key(&e.src) {
                let ent = e.src_entity.clone();
                let day = day_of(e.cdate);
                let k = (ent, day);
                *days.entry(k.clone()).or_insert(0) += 1;
                let mut sig = vec![0u8; 64];
                rng.fill(&mut sig[..]);
                fs.daily_nodes.entry(k).or_default().push(NodeIdentifier {
                    id: e.src,
                    mdate: e.cdate + 1_000_000_000,
                    signature: sig,
                });
                max_day = max_day.max(day);
            }
        }
    }
    for ((entity, day), n) in &days {
        let mut h = vec![0u8; 32];
        rng.fill(&mut h[..]);
        fs.room_log.push(DailyLog {
            room_id: room,
            date: *day,
            entity: entity.clone(),
            entry_number: *n,
            daily_hash: Some(h),
            history_hash: None,
            need_recompute: false,
        });
    }
    fs.room_definition = Some(RoomDefinitionLog {
        room_id: room,
        room_def_date: local.room_def_date,
        last_data_date: Some(max_day),
        entry_number: Some(1),
        daily_hash: Some(vec![1; 32]),
        history_hash: None,
    });
    let (q, a) = fs.start();
    let st = pull_over(victim, room, q, a, PullOpts::default()).await;
    // an error of the pull is a legitimate way of refusing a batch
    let _ = st;
    Ok(())
}

fn run_case<'a>(ctx: &'a Ctx, case: u64, acc: &'a mut Acc) -> CaseFut<'a> {
    Box::pin(async move {
        let mut rng = ctx.rng(case);
        let dir = ctx.case_dir(case);
        let seed = ctx.case_seed(case);
        clock_set(T0);
        clock_step(0);
        let mut t = T0 + 10;
        clock_set(t);
        let a = match Peer::start("A", seed, 0, MODEL, &dir.join("a"), small_config()).await {
            Ok(p) => p,
            Err(e) => {
                acc.inconclusive(e);
                return;
            }
        };
        let v = Peer::start("V", seed, 1, MODEL, &dir.join("v"), small_config()).await.unwrap();
        let w = Identity::new(seed, 60); // own rows only
        let x = Identity::new(seed, 61); // all rows
        let d = Identity::new(seed, 62); // disabled after one day
        let o = Identity::new(seed, 63); // outsider
        let star = Identity::new(seed, 64); // wildcard own right on every entity
        let mv = Identity::new(seed, 65); // member of both rooms, disabled in the second room after one day
        let r = |e: &str, own, all| RightSpec { entity: e.to_string(), own, all };
        let spec = RoomSpec {
            admins: vec![(a.id.vkey.clone(), true)],
            groups: vec![
                GroupSpec { name: "own".into(), users: vec![(w.vkey.clone(), true), (d.vkey.clone(), true), (v.id.vkey.clone(), true), (mv.vkey.clone(), true)], user_admins: vec![], rights: vec![r("Person", true, false), r("Pet", true, false)] },
                GroupSpec { name: "all".into(), users: vec![(x.vkey.clone(), true)], user_admins: vec![], rights: vec![r("Person", true, true), r("Pet", true, true)] },
                GroupSpec { name: "star".into(), users: vec![(star.vkey.clone(), true)], user_admins: vec![], rights: vec![r("*", true, false)] },
            ],
        };
        let mut room: RoomHandle = a.create_room(&spec).await.unwrap();
        let spec2 = RoomSpec {
            admins: vec![(a.id.vkey.clone(), true)],
            groups: vec![GroupSpec { name: "g".into(), users: vec![(v.id.vkey.clone(), true), (w.vkey.clone(), true), (mv.vkey.clone(), true)], user_admins: vec![], rights: vec![r("*", true, true)] }],
        };
        let mut room2 = a.create_room(&spec2).await.unwrap();
        // D is disabled one day later
        t += DAY;
        clock_set(t);
        a.edit_room(&mut room, &RoomEdit::User(0, d.vkey.clone(), false)).await.unwrap();
        a.edit_room(&mut room2, &RoomEdit::User(0, mv.vkey.clone(), false)).await.unwrap();
        let t_disabled = t;
        t += 100;
        clock_set(t);
        for rm in [&room, &room2] {
            let st = pull(&v, &a, rm.id, PullOpts::default()).await;
            if let Some(e) = st.error {
                acc.inconclusive(format!("initial pull failed: {}", e));
                return;
            }
        }
        // the victim's own rows: one in R2, one without room
        let own_r2 = {
            let mut p = discret::Parameters::new();
            use discret::ParametersAdd;
            p.add("room", room2.id64()).unwrap();
            let res = v.mutate("mutate { Person{ room_id:$room name:\"victim row in R2\" } }", Some(p)).await.unwrap();
            let val: Value = serde_json::from_str(&res).unwrap();
            let id: Uid = crate::util::unb64(val["Person"]["id"].as_str().unwrap()).try_into().unwrap();
            id
        };
        // seed batch: honest rows by W and X that later rows refer to
        let t1 = T0 + 1000; // W, X, D enabled
        let pw = node(uid(&mut rng), room.id, "0", "{\"32\":\"w row\"}".into(), t1, t1, &w);
        let px = node(uid(&mut rng), room.id, "0", "{\"32\":\"x row\"}".into(), t1, t1, &x);
        let petw = node(uid(&mut rng), room.id, "1", "{\"32\":\"w pet\"}".into(), t1, t1, &w);
        let seed_items = vec![
            Offered { kind: "honest-own-row", should_store: true, item: Item::N(pw.clone()) },
            Offered { kind: "honest-own-row", should_store: true, item: Item::N(px.clone()) },
            Offered { kind: "honest-own-row", should_store: true, item: Item::N(petw.clone()) },
        ];
        if let Err(e) = serve(&v, room.id, &seed_items, &mut rng).await {
            acc.inconclusive(e);
            return;
        }
        // rows of the second room, stored by the victim: candidates for a move into the room under test
        let w_r2 = node(uid(&mut rng), room2.id, "0", "{\"32\":\"w row in R2\"}".into(), t1, t1, &w);
        let mv_r2 = node(uid(&mut rng), room2.id, "0", "{\"32\":\"mv row in R2\"}".into(), t1, t1, &mv);
        let seed2 = vec![
            Offered { kind: "honest-own-row", should_store: true, item: Item::N(w_r2.clone()) },
            Offered { kind: "honest-own-row", should_store: true, item: Item::N(mv_r2.clone()) },
        ];
        if let Err(e) = serve(&v, room2.id, &seed2, &mut rng).await {
            acc.inconclusive(e);
            return;
        }
        let s0 = v.snapshot().await;
        if !seed2.iter().all(|o| present(&s0, &o.item)) {
            acc.inconclusive("seed rows of the second room were not stored");
            return;
        }
        if !seed_items.iter().all(|o| present(&s0, &o.item)) {
            acc.inconclusive("seed rows were not stored (harness serving problem or refused honest rows)");
            return;
        }
        let keys = vec![a.id.vkey.clone(), v.id.vkey.clone(), w.vkey.clone(), x.vkey.clone(), star.vkey.clone(), o.vkey.clone()];
        let r2_before = compare(&v, &room2, &keys).await.is_ok();

        // candidate rows
        let t2 = t_disabled + 5000; // D disabled
        let model = &room.model;
        let mut pool: Vec<Offered> = Vec::new();
        let big = "x".repeat(300 * 1024);
        let mk = |kind: &'static str, should: bool, item: Item| Offered { kind, should_store: should, item };
        // nodes
        pool.push(mk("own-row-by-member", model.can(&w.vkey, "Person", t2, Right::Own), Item::N(node(uid(&mut rng), room.id, "0", "{\"32\":\"ok\"}".into(), t2, t2, &w))));
        pool.push(mk("row-by-outsider", false, Item::N(node(uid(&mut rng), room.id, "0", "{\"32\":\"outsider\"}".into(), t2, t2, &o))));
        pool.push(mk("row-by-member-disabled-at-its-date", model.can(&d.vkey, "Person", t2, Right::Own), Item::N(node(uid(&mut rng), room.id, "0", "{\"32\":\"disabled\"}".into(), t2, t2, &d))));
        pool.push(mk("row-by-member-dated-while-enabled", model.can(&d.vkey, "Person", t1, Right::Own), Item::N(node(uid(&mut rng), room.id, "0", "{\"32\":\"enabled then\"}".into(), t1, t1, &d))));
        pool.push(mk("row-dated-before-the-room", model.can(&w.vkey, "Person", T0 - DAY, Right::Own), Item::N(node(uid(&mut rng), room.id, "0", "{\"32\":\"early\"}".into(), T0 - DAY, T0 - DAY, &w))));
        pool.push(mk("foreign-row-replaced-with-own-right-only", false, Item::N(node(px.id, room.id, "0", "{\"32\":\"w over x\"}".into(), t1, t2, &w))));
        pool.push(mk("foreign-row-replaced-with-all-right", true, Item::N(node(pw.id, room.id, "0", "{\"32\":\"x over w\"}".into(), t1, t2 + 1, &x))));
        // a row changes room: its author needs the right in the room it leaves as well, at the date of the new version
        pool.push(mk(
            "row-moved-in-from-another-room-by-an-author-entitled-in-both",
            model.can(&w.vkey, "Person", t2, Right::Own) && room2.model.can(&w.vkey, "Person", t2, Right::Own),
            Item::N(node(w_r2.id, room.id, "0", "{\"32\":\"w moved in\"}".into(), t1, t2, &w)),
        ));
        pool.push(mk(
            "row-moved-in-from-a-room-where-its-author-has-lost-the-right",
            model.can(&mv.vkey, "Person", t2, Right::Own) && room2.model.can(&mv.vkey, "Person", t2, Right::Own),
            Item::N(node(mv_r2.id, room.id, "0", "{\"32\":\"mv moved in\"}".into(), t1, t2, &mv)),
        ));
        pool.push(mk("row-of-another-room", false, Item::N(node(uid(&mut rng), room2.id, "0", "{\"32\":\"other room\"}".into(), t2, t2, &w))));
        pool.push(mk("unknown-entity", false, Item::N(node(uid(&mut rng), room.id, "9.9", "{\"32\":\"?\"}".into(), t2, t2, &x))));
        pool.push(mk("entity-without-right", false, Item::N(node(uid(&mut rng), room.id, "2.0", "{\"32\":\"thing\"}".into(), t2, t2, &w))));
        pool.push(mk("model-violating-json", false, Item::N(node(uid(&mut rng), room.id, "0", "{\"32\":12}".into(), t2, t2, &x))));
        pool.push(mk("missing-required-field", false, Item::N(node(uid(&mut rng), room.id, "0", "{}".into(), t2, t2, &x))));
        pool.push(mk("oversized-row", false, Item::N(node(uid(&mut rng), room.id, "0", format!("{{\"32\":\"{}\"}}", big), t2, t2, &x))));
        {
            let mut n = node(uid(&mut rng), room.id, "0", "{\"32\":\"signed\"}".into(), t2, t2, &x);
            n._json = Some("{\"32\":\"tampered\"}".into());
            pool.push(mk("tampered-after-signing", false, Item::N(n)));
        }
        // the victim's row in another room / a room-less definition row overwritten through R
        pool.push(mk("row-of-another-room-overwritten-through-this-room", false, Item::N(node(own_r2, room.id, "0", "{\"32\":\"hijacked\"}".into(), t1, t + 50_000, &x))));
        pool.push(mk("system-entity-through-the-data-path", false, Item::N(node(uid(&mut rng), room.id, "0.2", format!("{{\"32\":\"{}\",\"33\":true}}", b64(&star.vkey)), t2, t2, &star))));
        // references
        pool.push(mk("reference-on-own-row", true, Item::E(edge(pw.id, "0", "35", petw.id, t2, &w))));
        pool.push(mk("reference-on-foreign-row-with-own-right-only", false, Item::E(edge(px.id, "0", "35", petw.id, t2, &w))));
        pool.push(mk("reference-by-outsider", false, Item::E(edge(pw.id, "0", "34", px.id, t2, &o))));
        pool.push(mk("reference-whose-source-is-in-another-room", false, Item::E(edge(own_r2, "0", "34", pw.id, t2, &w))));
        {
            // room R2 --admin--> an entry signed by a member of R that has the wildcard right in R
            let entry = node(uid(&mut rng), room.id, "0.2", format!("{{\"32\":\"{}\",\"33\":true}}", b64(&star.vkey)), t2, t2, &star);
            pool.push(mk("reference-from-another-rooms-definition-row", false, Item::E(edge(room2.id, "0.0", "32", entry.id, t2, &star))));
            pool.push(mk("system-entity-through-the-data-path", false, Item::N(entry)));
        }
        // deletion records
        pool.push(mk("deletion-of-own-row", true, Item::ND(NodeDeletionEntry::build(room.id, &petw, t2, &w.signing))));
        pool.push(mk("deletion-of-foreign-row-with-own-right-only", false, Item::ND(NodeDeletionEntry::build(room.id, &px, t2, &w.signing))));
        {
            // the record names a version date that is not the stored one (one millisecond later): the row it deletes is
            // still another author's row
            let mut shifted = px.clone();
            shifted.mdate += 1;
            pool.push(mk("deletion-of-foreign-row-with-own-right-only-and-a-shifted-version-date", false, Item::ND(NodeDeletionEntry::build(room.id, &shifted, t2, &w.signing))));
        }
        pool.push(mk("deletion-by-outsider", false, Item::ND(NodeDeletionEntry::build(room.id, &pw, t2, &o.signing))));
        pool.push(mk("deletion-by-member-disabled-at-its-date", false, Item::ND(NodeDeletionEntry::build(room.id, &pw, t2, &d.signing))));

        pool.shuffle(&mut rng);
        // one case in four: the cross-room reference together with the entry it points to come first
        if case % 4 == 0 {
            pool.sort_by_key(|o| match o.kind {
                "reference-from-another-rooms-definition-row" => 0,
                "system-entity-through-the-data-path" => 1,
                _ => 2,
            });
        }
        let n_items = rng.gen_range(3..=ctx.tier.pick(8, 14)).min(pool.len());
        let mut batch: Vec<Offered> = pool.into_iter().take(n_items).collect();
        // keep at most one version per row id and one deletion per row to keep verdicts independent
        let mut seen = std::collections::HashSet::new();
        batch.retain(|o| match &o.item {
            Item::N(n) => seen.insert(n.id),
            Item::ND(d) => seen.insert(d.id),
            _ => true,
        });
        let before = v.snapshot().await;
        if let Err(e) = serve(&v, room.id, &batch, &mut rng).await {
            acc.inconclusive(e);
            return;
        }
        let after = v.snapshot().await;
        let kinds: Vec<&str> = batch.iter().map(|o| o.kind).collect();
        let outsider_key = o.vkey.clone();
        let mut violated = false;
        for ofr in &batch {
            let o = ofr;
            acc.count(&format!("row/{}", o.kind), 1);
            let stored = present(&after, &o.item) && !present(&before, &o.item);
            if stored {
                acc.count(&format!("stored/{}", o.kind), 1);
            }
            if stored && !o.should_store {
                acc.violation(
                    format!("C02/stored-although-it-must-be-refused/{}", o.kind),
                    json!({"batch": kinds, "row": match &o.item { Item::N(n) => crate::snapshot::node_json(n), Item::E(e) => crate::snapshot::edge_json(e), Item::ND(d) => json!({"node_deletion": b64(&d.id), "author": short(&d.verifying_key)}), Item::ED(d) => json!({"edge_deletion": b64(&d.src)}) }, "authors": {"w(own)": short(&w.vkey), "x(all)": short(&x.vkey), "d(disabled)": short(&d.vkey), "o(outsider)": short(&outsider_key), "star(* own)": short(&star.vkey)}}),
                );
                violated = true;
            }
            // a refused deletion must not delete
            if let (Item::ND(dl), false) = (&o.item, o.should_store) {
                let had = before.nodes.keys().any(|k| k.0 == dl.id);
                let has = after.nodes.keys().any(|k| k.0 == dl.id);
                if had && !has {
                    acc.violation(
                        format!("C02/refused-deletion-removed-the-row/{}", o.kind),
                        json!({"batch": kinds}),
                    );
                    violated = true;
                }
            }
            let _ = trace_of;
        }
        // R5: rows that belonged to another room or to no room before the batch are untouched
        for (k, n) in &before.nodes {
            if n.room_id != Some(room.id) {
                match after.nodes.get(k) {
                    Some(m) if crate::snapshot::node_sig(m) == crate::snapshot::node_sig(n) => {}
                    // an entitled move into this room replaces the row of the other room: decided by the per-row verdict above
                    Some(m) if batch.iter().any(|o| o.should_store && matches!(&o.item, Item::N(x) if x._signature == m._signature)) => {}
                    // an unentitled one is reported by the per-row verdict, once
                    Some(m) if batch.iter().any(|o| matches!(&o.item, Item::N(x) if x._signature == m._signature)) => {}
                    _ => {
                        acc.violation(
                            "C02/row-of-another-room-or-without-room-changed-by-this-rooms-batch",
                            json!({"batch": kinds, "row": crate::snapshot::node_json(n)}),
                        );
                        violated = true;
                    }
                }
            }
        }
        // consequence check: the other room means the same, live and after a restart
        if r2_before {
            if let Err(dd) = compare(&v, &room2, &keys).await {
                acc.violation("C02/decisions-of-another-room-changed/live", json!({"batch": kinds, "cells": dd}));
                violated = true;
            }
            match Peer::start("V-restart", seed, 1, MODEL, &dir.join("v"), small_config()).await {
                Ok(rv) => {
                    if let Err(dd) = compare(&rv, &room2, &keys).await {
                        acc.violation("C02/decisions-of-another-room-changed/after-restart", json!({"batch": kinds, "cells": dd}));
                        violated = true;
                    }
                    acc.count("restart_consequence_checks", 1);
                }
                Err(e) => {
                    acc.violation("C02/victim-cannot-restart-after-the-batch", json!({"batch": kinds, "error": e}));
                    violated = true;
                }
            }
        }
        if violated {
            return;
        }
        let acc_n = batch.iter().filter(|o| o.should_store).count();
        let rej_n = batch.len() - acc_n;
        let mut ks: Vec<&str> = kinds.clone();
        ks.sort();
        ks.dedup();
        let key = if acc_n > 0 && rej_n > 0 && ks.len() >= 2 { Some(ks.join("+")) } else { None };
        acc.held(key);
        acc.sample(json!({"batch": kinds}));
    })
}
