//! C19 — Connections are trusted only after key proof; invites are single-use.
//!
//! Seam S-CONN: a real `Discret` (multicast and beacons off) receives
//! `PeerConnectionMessage::NewConnection(None, ..)` whose remote side is played by the harness over
//! in-memory channels: the library's own token lookup, challenge, proof verification, invite
//! consumption and inbound query service run unchanged.
use crate::peer::{key_material, signing_key_for, APP_KEY};
use crate::runner::{Acc, CaseFut, Ctx, PropDef};
use crate::util::{b64, clock_real, short};
use crate::world::MODEL;
use discret::verif::configuration::Configuration;
use discret::verif::database::node::Node;
use discret::verif::database::system_entities::{Invite, Peer as SysPeer};
use discret::verif::network::ConnectionInfo;
use discret::verif::peer_connection_service::PeerConnectionMessage;
use discret::verif::security::{Ed25519SigningKey, MeetingSecret, MeetingToken, SigningKey, Uid};
use discret::verif::synchronisation::{Answer, IdentityAnswer, Query, QueryProtocol, RemoteEvent};
use discret::{Discret, Event};
use rand::rngs::StdRng;
use rand::Rng;
use serde_json::{json, Value};
use std::collections::VecDeque;
use std::sync::{Arc, Mutex};
use std::time::Duration;
use tokio::sync::mpsc;
use x25519_dalek::PublicKey;

pub static DEF: PropDef = PropDef {
    id: "C19",
    level: "exploration",
    rule: "a real Discret instance creates invitations; harness-played remote sides connect with the invitation token or an allowed-peer token and answer the identity challenge with one of: correct proof; signature by another key; an answer recorded on another connection; a valid proof by another allowed peer's key; a peer row with the wrong entity, with a room, with a bad signature, with an empty key; no answer; and the same invitation used by a second and third key, sequentially and racing; invitation bytes for another application, truncated or bit-flipped are given to accept_invite. Event-log oracle: every trust event for key K on connection c (Ready sent to the remote, PeerConnected(K), room list served, allowed peer created) must be preceded by a proof sent on c that is a signature by K of c's own fresh challenge; challenges are pairwise distinct; one invitation yields at most one allowed peer; plus token symmetry / distinctness on sampled key pairs. non-trivial = case with an accepted and a refused connection; distinct = behaviour sequence Six room-list requests are pipelined right behind the identity answer; the valid-proof-by-another-key behaviour is played four times per case.",
    assumptions: &[
        "the transport (QUIC, certificate pinning) is not part of this check; a live relay of the challenge to the genuine key holder is out of reach",
        "distinctness of tokens between pairs is a 56-bit hash property: sampled only",
    ],
    cases: |t| t.pick(96, 600),
    shards: |t| t.pick(10, 16),
    case_budget_s: |_| 300,
    min_conclusive: |t| t.pick(15, 200),
    run_case,
    finish: None,
    worker_threads: 4,
    tokio_per_case: true,
};

pub(crate) struct RemoteId {
    pub(crate) signing: Ed25519SigningKey,
    pub(crate) vkey: Vec<u8>,
    pub(crate) meeting: MeetingSecret,
    pub(crate) peer_node: Node,
}

pub(crate) fn remote_identity(seed: u64, idx: u64) -> RemoteId {
    let km = key_material(seed, idx);
    let signing = signing_key_for(APP_KEY, &km);
    let vkey = signing.export_verifying_key();
    let meeting = MeetingSecret::new(discret::verif::security::derive_key("dv remote meeting", &km));
    let mut uid = [0u8; 16];
    uid.copy_from_slice(&km[0..16]);
    let mut peer_node = SysPeer::create(uid, b64(meeting.public_key().as_bytes()));
    peer_node.sign(&signing).unwrap();
    RemoteId { signing, vkey, meeting, peer_node }
}

#[derive(Clone, Copy, Debug, PartialEq, Eq)]
enum Behaviour {
    Correct,
    WrongKeySignature,
    ReplayedAnswer,
    OtherAllowedPeersProof,
    PeerRowWrongEntity,
    PeerRowWithRoom,
    PeerRowBadSignature,
    PeerRowEmptyKey,
    NoAnswer,
}

struct ConnLog {
    challenge: Option<Vec<u8>>,
    /// (key that produced the signature, challenge that was signed) of the proof actually sent
    proof_sent: Option<(Vec<u8>, Vec<u8>)>,
    ready: bool,
    room_list_served: bool,
    conn_id: Uid,
}

pub(crate) struct Conn {
    pub(crate) h_answer_tx: mpsc::Sender<Answer>,
    pub(crate) h_answer_rx: mpsc::Receiver<Answer>,
    pub(crate) h_query_tx: mpsc::Sender<QueryProtocol>,
    pub(crate) h_query_rx: mpsc::Receiver<QueryProtocol>,
    pub(crate) _h_event_tx: mpsc::Sender<RemoteEvent>,
    pub(crate) h_event_rx: mpsc::Receiver<RemoteEvent>,
}

pub(crate) async fn open(d: &Discret, token: MeetingToken, claimed_key: &[u8], conn_id: Uid) -> Conn {
    let (d_answer_tx, h_answer_rx) = mpsc::channel::<Answer>(32);
    let (h_answer_tx, d_answer_rx) = mpsc::channel::<Answer>(32);
    let (d_query_tx, h_query_rx) = mpsc::channel::<QueryProtocol>(32);
    let (h_query_tx, d_query_rx) = mpsc::channel::<QueryProtocol>(32);
    let (d_event_tx, h_event_rx) = mpsc::channel::<RemoteEvent>(32);
    let (h_event_tx, d_event_rx) = mpsc::channel::<RemoteEvent>(32);
    let mut remote_id = [0u8; 16];
    remote_id.copy_from_slice(&conn_id);
    remote_id[0] ^= 0x55;
    let info = ConnectionInfo {
        endpoint_id: [1; 16],
        remote_id,
        conn_id,
        meeting_token: token,
        peer_verifying_key: claimed_key.to_vec(),
    };
    let _ = d
        .verif_peers()
        .sender
        .send(PeerConnectionMessage::NewConnection(
            None, info, d_answer_tx, d_answer_rx, d_query_tx, d_query_rx, d_event_tx, d_event_rx,
        ))
        .await;
    Conn { h_answer_tx, h_answer_rx, h_query_tx, h_query_rx, _h_event_tx: h_event_tx, h_event_rx }
}

/// plays one behaviour on a connection; returns the log of what crossed the boundary
async fn play(
    conn: &mut Conn,
    who: &RemoteId,
    other: &RemoteId,
    behaviour: Behaviour,
    replay_from: &Option<IdentityAnswer>,
    conn_id: Uid,
) -> (ConnLog, Option<IdentityAnswer>) {
    let mut log = ConnLog { challenge: None, proof_sent: None, ready: false, room_list_served: false, conn_id };
    let mut sent_answer: Option<IdentityAnswer> = None;
    // wait for the challenge
    let q = tokio::time::timeout(Duration::from_millis(1500), conn.h_query_rx.recv()).await;
    if let Ok(Some(QueryProtocol { id, query: Query::ProveIdentity(ch) })) = q {
        log.challenge = Some(ch.clone());
        let answer: Option<IdentityAnswer> = match behaviour {
            Behaviour::Correct => {
                log.proof_sent = Some((who.vkey.clone(), ch.clone()));
                Some(IdentityAnswer { peer: who.peer_node.clone(), chall_signature: who.signing.sign(&ch) })
            }
            Behaviour::WrongKeySignature => {
                log.proof_sent = Some((other.vkey.clone(), ch.clone()));
                Some(IdentityAnswer { peer: who.peer_node.clone(), chall_signature: other.signing.sign(&ch) })
            }
            Behaviour::ReplayedAnswer => match replay_from {
                Some(a) => {
                    log.proof_sent = Some((who.vkey.clone(), b"challenge of another connection".to_vec()));
                    Some(IdentityAnswer { peer: a.peer.clone(), chall_signature: a.chall_signature.clone() })
                }
                None => {
                    let mut fake = ch.clone();
                    fake[0] ^= 1;
                    log.proof_sent = Some((who.vkey.clone(), fake.clone()));
                    Some(IdentityAnswer { peer: who.peer_node.clone(), chall_signature: who.signing.sign(&fake) })
                }
            },
            Behaviour::OtherAllowedPeersProof => {
                // a perfectly valid proof, by another key than the one expected for the token
                log.proof_sent = Some((other.vkey.clone(), ch.clone()));
                Some(IdentityAnswer { peer: other.peer_node.clone(), chall_signature: other.signing.sign(&ch) })
            }
            Behaviour::PeerRowWrongEntity => {
                let mut n = who.peer_node.clone();
                n._entity = "0".to_string();
                n.sign(&who.signing).unwrap();
                log.proof_sent = Some((who.vkey.clone(), ch.clone()));
                Some(IdentityAnswer { peer: n, chall_signature: who.signing.sign(&ch) })
            }
            Behaviour::PeerRowWithRoom => {
                let mut n = who.peer_node.clone();
                n.room_id = Some([3; 16]);
                n.sign(&who.signing).unwrap();
                log.proof_sent = Some((who.vkey.clone(), ch.clone()));
                Some(IdentityAnswer { peer: n, chall_signature: who.signing.sign(&ch) })
            }
            Behaviour::PeerRowBadSignature => {
                let mut n = who.peer_node.clone();
                n._json = Some(n._json.unwrap().replace("\"33\": \"\"", "\"33\": \"x\""));
                log.proof_sent = Some((who.vkey.clone(), ch.clone()));
                Some(IdentityAnswer { peer: n, chall_signature: who.signing.sign(&ch) })
            }
            Behaviour::PeerRowEmptyKey => {
                let mut n = who.peer_node.clone();
                n.verifying_key = vec![];
                log.proof_sent = None;
                Some(IdentityAnswer { peer: n, chall_signature: who.signing.sign(&ch) })
            }
            Behaviour::NoAnswer => None,
        };
        if let Some(a) = answer {
            let ser = bincode::serialize(&a).unwrap();
            let _ = conn.h_answer_tx.send(Answer { id, success: true, complete: true, serialized: ser }).await;
            sent_answer = Some(a);
            // requests pipelined right behind the answer: they are handled by another task of the instance than the
            // one that checks the proof
            for k in 1..=6u64 {
                let _ = conn.h_query_tx.send(QueryProtocol { id: 9000 + k, query: Query::RoomList }).await;
                tokio::task::yield_now().await;
            }
        }
    }
    // observe what the instance does: Ready event, then ask for the room list
    let ev = tokio::time::timeout(Duration::from_millis(600), conn.h_event_rx.recv()).await;
    if let Ok(Some(RemoteEvent::Ready)) | Ok(Some(RemoteEvent::ReadyFingerprint)) = ev {
        log.ready = true;
    }
    let _ = conn.h_query_tx.send(QueryProtocol { id: 9000, query: Query::RoomList }).await;
    loop {
        match tokio::time::timeout(Duration::from_millis(300), conn.h_answer_rx.recv()).await {
            Ok(Some(a)) => {
                if (9000..=9006).contains(&a.id) && a.success {
                    log.room_list_served = true;
                }
                if a.id == 9000 && a.complete {
                    break;
                }
            }
            _ => break,
        }
    }
    (log, sent_answer)
}

async fn allowed_peer_keys(d: &Discret) -> Vec<String> {
    let q = "query { sys.AllowedPeer{ peer{ verifying_key } } }";
    let r = d.query(q, None).await.unwrap_or_default();
    let v: Value = serde_json::from_str(&r).unwrap_or(json!({}));
    v["sys.AllowedPeer"]
        .as_array()
        .map(|a| a.iter().filter_map(|x| x["peer"]["verifying_key"].as_str().map(|s| s.to_string())).collect())
        .unwrap_or_default()
}

fn run_case<'a>(ctx: &'a Ctx, case: u64, acc: &'a mut Acc) -> CaseFut<'a> {
    Box::pin(async move {
        clock_real();
        let mut rng: StdRng = ctx.rng(case);
        let dir = ctx.case_dir(case);
        let seed = ctx.case_seed(case);
        let config = Configuration { parallelism: 2, enable_multicast: false, enable_beacons: false, ..Default::default() };
        let km = key_material(seed, 0);
        std::fs::create_dir_all(dir.join("d")).unwrap();
        std::fs::create_dir_all(dir.join("d2")).unwrap();
        let d = match Discret::new(MODEL, APP_KEY, &km, dir.join("d"), config).await {
            Ok(d) => d,
            Err(e) => {
                acc.inconclusive(format!("Discret::new failed: {}", e));
                return;
            }
        };
        let mut events = d.subscribe_for_events().await;
        let connected: Arc<Mutex<Vec<(Vec<u8>, String)>>> = Arc::new(Mutex::new(Vec::new()));
        let c2 = connected.clone();
        tokio::spawn(async move {
            while let Ok(e) = events.recv().await {
                if let Event::PeerConnected(k, _, conn) = e {
                    c2.lock().unwrap().push((k, conn));
                }
            }
        });
        let k1 = remote_identity(seed, 1);
        let k2 = remote_identity(seed, 2);
        let k3 = remote_identity(seed, 3);
        let mut history: Vec<Value> = Vec::new();
        let mut challenges: Vec<Vec<u8>> = Vec::new();
        let mut conn_n: u8 = 0;
        let mut accepted_n = 0;
        let mut refused_n = 0;
        let mut behaviours: Vec<String> = Vec::new();
        let mut next_conn = |n: &mut u8| -> Uid {
            *n += 1;
            let mut c = [0u8; 16];
            c[0] = *n;
            c[1] = 7;
            c
        };
        let witness = |why: &str, h: &Vec<Value>| json!({"why": why, "history": h, "keys": {"k1": short(&k1.vkey), "k2": short(&k2.vkey), "k3": short(&k3.vkey)}});

        // --- invitation flow
        let invite_bytes = match d.invite(None).await {
            Ok(b) => b,
            Err(e) => {
                acc.inconclusive(format!("invite failed: {}", e));
                return;
            }
        };
        let invite: Invite = bincode::deserialize(&invite_bytes).unwrap();
        let inv_token = MeetingSecret::derive_token("P", &invite.invite_id);
        let mut replay: Option<IdentityAnswer> = None;
        let racing = rng.gen_bool(0.3);
        let first_behaviour = if rng.gen_bool(0.35) {
            [Behaviour::WrongKeySignature, Behaviour::ReplayedAnswer, Behaviour::PeerRowWrongEntity, Behaviour::PeerRowWithRoom, Behaviour::PeerRowBadSignature, Behaviour::NoAnswer, Behaviour::PeerRowEmptyKey][rng.gen_range(0..7)]
        } else {
            Behaviour::Correct
        };
        // sequence of (identity index, behaviour) using the invitation token
        let mut plan: Vec<(usize, Behaviour)> = vec![(1, first_behaviour), (2, Behaviour::Correct)];
        if rng.gen_bool(0.5) {
            plan.push((3, Behaviour::Correct));
        }
        let ids = [&k1, &k2, &k3];
        let mut invite_allowed: Vec<Vec<u8>> = Vec::new();
        if racing {
            // two keys race with the same invitation
            let c_a = next_conn(&mut conn_n);
            let c_b = next_conn(&mut conn_n);
            let mut conn_a = open(&d, inv_token, &k1.vkey, c_a).await;
            let mut conn_b = open(&d, inv_token, &k2.vkey, c_b).await;
            let (ra, rb) = tokio::join!(
                play(&mut conn_a, &k1, &k2, Behaviour::Correct, &None, c_a),
                play(&mut conn_b, &k2, &k1, Behaviour::Correct, &None, c_b)
            );
            for (who, (log, _)) in [(&k1, ra), (&k2, rb)] {
                if let Some(c) = &log.challenge {
                    challenges.push(c.clone());
                }
                history.push(json!({"conn": log.conn_id[0], "token": "invitation", "key": short(&who.vkey), "behaviour": "Correct (racing)", "ready": log.ready, "room_list_served": log.room_list_served}));
                if log.ready {
                    accepted_n += 1;
                    invite_allowed.push(who.vkey.clone());
                } else {
                    refused_n += 1;
                }
            }
            behaviours.push("race".into());
        } else {
            for (idx, beh) in plan {
                let who = ids[idx - 1];
                let other = ids[idx % 3];
                let c = next_conn(&mut conn_n);
                let mut conn = open(&d, inv_token, &who.vkey, c).await;
                let (log, sent) = play(&mut conn, who, other, beh, &replay, c).await;
                if beh == Behaviour::Correct && replay.is_none() {
                    replay = sent;
                }
                if let Some(ch) = &log.challenge {
                    challenges.push(ch.clone());
                }
                behaviours.push(format!("{:?}", beh));
                history.push(json!({"conn": c[0], "token": "invitation", "key": short(&who.vkey), "behaviour": format!("{:?}", beh), "challenged": log.challenge.is_some(), "ready": log.ready, "room_list_served": log.room_list_served}));
                // oracle: trust only after a proof by the claimed key of this connection's challenge
                let legit = match (&log.proof_sent, &log.challenge) {
                    (Some((k, signed)), Some(ch)) => k == &who.vkey && signed == ch && beh == Behaviour::Correct,
                    _ => false,
                };
                if (log.ready || log.room_list_served) && !legit {
                    acc.violation(
                        format!("C19/trusted-without-valid-proof/invitation/{:?}", beh),
                        witness("Ready sent or room list served although no signature of this connection's challenge by the claimed key was sent", &history),
                    );
                    return;
                }
                if log.ready {
                    accepted_n += 1;
                    invite_allowed.push(who.vkey.clone());
                } else {
                    refused_n += 1;
                }
                tokio::time::sleep(Duration::from_millis(60)).await;
            }
        }
        tokio::time::sleep(Duration::from_millis(150)).await;
        // one invitation => at most one key became an allowed peer through it
        let allowed = allowed_peer_keys(&d).await;
        let through_invite: Vec<&Vec<u8>> = ids.iter().map(|i| &i.vkey).filter(|k| allowed.contains(&b64(k))).collect();
        acc.count("invitation_connections", history.len() as u64);
        if through_invite.len() > 1 {
            acc.violation(
                if racing { "C19/invitation-consumed-more-than-once/racing-connections" } else { "C19/invitation-consumed-more-than-once/sequential-connections" },
                witness(&format!("{} different keys became allowed peers with one invitation", through_invite.len()), &history),
            );
            return;
        }
        // PeerConnected events only for keys that proved themselves
        for (k, _) in connected.lock().unwrap().iter() {
            if !invite_allowed.contains(k) {
                acc.violation("C19/peer-connected-event-for-a-key-that-did-not-prove-itself", witness(&short(k), &history));
                return;
            }
        }

        // --- allowed peer flow: the key that consumed the invitation reconnects with its pair token
        if let Some(first) = through_invite.first() {
            let who = ids.iter().find(|i| &&i.vkey == first).unwrap();
            let other = ids.iter().find(|i| &&i.vkey != first).unwrap();
            // the instance's meeting public key is in its own peer row, served to anyone
            let c = next_conn(&mut conn_n);
            let mut probe = open(&d, [0; 7], &who.vkey, c).await;
            drop(&mut probe);
            let d_peer = d.verif_services().database.get_peer_node(d.verif_params().verifying_key.clone()).await.ok().flatten();
            if let Some(dp) = d_peer {
                let pk_bytes = SysPeer::pub_key(&dp).unwrap();
                let pk: PublicKey = bincode::deserialize(&pk_bytes).unwrap();
                let token = who.meeting.token(&pk);
                // a valid proof by the wrong key races with the serving task: tried several times
                for beh in [Behaviour::OtherAllowedPeersProof, Behaviour::OtherAllowedPeersProof, Behaviour::OtherAllowedPeersProof, Behaviour::OtherAllowedPeersProof, Behaviour::WrongKeySignature, Behaviour::ReplayedAnswer, Behaviour::Correct] {
                    if beh != Behaviour::Correct && rng.gen_bool(0.4) {
                        continue;
                    }
                    let c = next_conn(&mut conn_n);
                    let mut conn = open(&d, token, &who.vkey, c).await;
                    let (log, _) = play(&mut conn, who, other, beh, &replay, c).await;
                    if let Some(ch) = &log.challenge {
                        challenges.push(ch.clone());
                    }
                    behaviours.push(format!("allowed:{:?}", beh));
                    history.push(json!({"conn": c[0], "token": "allowed-peer pair token", "key": short(&who.vkey), "behaviour": format!("{:?}", beh), "challenged": log.challenge.is_some(), "ready": log.ready, "room_list_served": log.room_list_served}));
                    let legit = beh == Behaviour::Correct;
                    if (log.ready || log.room_list_served) && !legit {
                        acc.violation(
                            format!("C19/trusted-without-valid-proof/allowed-peer/{:?}", beh),
                            witness("Ready sent or room list served without a proof by the key expected for the token", &history),
                        );
                        return;
                    }
                    if legit && !log.ready {
                        acc.count("correct_allowed_peer_proof_not_accepted", 1);
                    }
                    if log.ready {
                        accepted_n += 1;
                    } else {
                        refused_n += 1;
                    }
                }
            }
        }
        // challenges pairwise distinct
        let mut sorted = challenges.clone();
        sorted.sort();
        sorted.dedup();
        acc.count("challenges_observed", challenges.len() as u64);
        if sorted.len() != challenges.len() {
            acc.violation("C19/challenge-reused-across-connections", witness("two connections received the same challenge", &history));
            return;
        }

        // --- invitation bytes given to accept_invite: other application, truncated, bit flipped
        {
            let cfg2 = Configuration { parallelism: 2, enable_multicast: false, enable_beacons: false, ..Default::default() };
            if let Ok(d2) = Discret::new(MODEL, "another application", &key_material(seed, 9), dir.join("d2"), cfg2).await {
                let mut variants: Vec<(&str, Vec<u8>)> = vec![("other-application", invite_bytes.clone())];
                variants.push(("truncated", invite_bytes[..invite_bytes.len() / 2].to_vec()));
                let mut flipped = invite_bytes.clone();
                let i = rng.gen_range(0..flipped.len());
                flipped[i] ^= 0x40;
                variants.push(("bit-flipped", flipped));
                for (name, bytes) in variants {
                    let _ = d2.accept_invite(bytes).await;
                    tokio::time::sleep(Duration::from_millis(40)).await;
                    let r = d2.query("query { sys.Invite{ application } }", None).await.unwrap_or_default();
                    let v: Value = serde_json::from_str(&r).unwrap_or(json!({}));
                    let stored = v["sys.Invite"].as_array().map(|a| a.len()).unwrap_or(0);
                    acc.count("accept_invite_variants", 1);
                    if stored > 0 && name == "other-application" {
                        acc.violation("C19/invitation-accepted-for-another-application", witness(name, &history));
                        return;
                    }
                }
            }
        }
        // --- token symmetry and distinctness (sampled)
        let pairs = ctx.tier.pick(150, 2000);
        let mut seen = std::collections::HashMap::new();
        for i in 0..pairs {
            let mut a = [0u8; 32];
            let mut b = [0u8; 32];
            rng.fill(&mut a);
            rng.fill(&mut b);
            let (sa, sb) = (MeetingSecret::new(a), MeetingSecret::new(b));
            let t1 = sa.token(&sb.public_key());
            let t2 = sb.token(&sa.public_key());
            acc.count("token_pairs", 1);
            if t1 != t2 {
                acc.violation("C19/meeting-token-not-symmetric", json!({"a": hex::encode(a), "b": hex::encode(b)}));
                return;
            }
            if let Some(j) = seen.insert(t1, i) {
                acc.violation("C19/meeting-token-collision-between-sampled-pairs", json!({"pairs": [i, j]}));
                return;
            }
        }
        let key = if accepted_n > 0 && refused_n > 0 { Some(behaviours.join(",")) } else { None };
        acc.held(key);
        acc.sample(json!({"history": history}));
        let _ = VecDeque::<u8>::new();
    })
}
