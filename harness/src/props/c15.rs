//! C15 — Changing the data model never loses data and a refused change changes nothing.
use crate::peer::{small_config, Peer};
use crate::runner::{Acc, CaseFut, Ctx, PropDef};
use crate::util::clock_real;
use discret::verif::database::query_language::data_model_parser::DataModel;
use discret::{Parameters, ParametersAdd};
use rand::rngs::StdRng;
use rand::Rng;
use serde_json::{json, Value};
use std::collections::BTreeMap;

pub static DEF: PropDef = PropDef {
    id: "C15",
    level: "exploration",
    rule: "sequences of data-model versions from an edit generator (valid: add namespace, entity, one or several fields at once, default, nullable<->not nullable with default, deprecate, add/remove index, toggle full text; invalid: remove / reorder / retype an item, non-nullable new field without default, nullable to not nullable without default, duplicate field, reserved name; and versions valid for one entity and invalid for another) applied at run time on one instance and at start-up (restart chain) on another, both holding one row per entity per version. Oracle: the verdict is the library's own (the model text it reports); accepted: every earlier row reads the same under the same names, new fields read null or their default, storage identifiers of entities and fields never change and never collide, both instances agree on them; refused: reported model, stored model, index list and a fixed query battery identical before/after; restart with the same text succeeds and changes nothing. non-trivial = sequence with an accepted version adding at least two items and a refused version; distinct = canonical edit sequence One case in four starts with an entity of 58-67 fields and grows it by up to 5 fields per version (identifiers cross 99/100); rows are read 40 fields at a time.",
    assumptions: &[
        "the instance does not report a refused run-time update (update_data_model returns the current model): a version counts as refused when the reported model text is not the submitted text",
    ],
    cases: |t| t.pick(48, 1200),
    shards: |t| t.pick(12, 16),
    case_budget_s: |_| 300,
    min_conclusive: |t| t.pick(16, 400),
    run_case,
    finish: None,
    worker_threads: 4,
    tokio_per_case: true,
};

#[derive(Clone, Debug, PartialEq)]
enum Ty {
    Integer,
    Float,
    Boolean,
    Str,
    Base64,
    Json,
    Ref(String),
    Arr(String),
}
impl Ty {
    fn text(&self) -> String {
        match self {
            Ty::Integer => "Integer".into(),
            Ty::Float => "Float".into(),
            Ty::Boolean => "Boolean".into(),
            Ty::Str => "String".into(),
            Ty::Base64 => "Base64".into(),
            Ty::Json => "Json".into(),
            Ty::Ref(e) => e.clone(),
            Ty::Arr(e) => format!("[{}]", e),
        }
    }
    fn is_scalar(&self) -> bool {
        !matches!(self, Ty::Ref(_) | Ty::Arr(_))
    }
    fn default_literal(&self, n: u32) -> String {
        match self {
            Ty::Integer => format!("{}", n),
            Ty::Float => format!("{}.5", n),
            Ty::Boolean => "true".into(),
            Ty::Str => format!("\"d{}\"", n),
            Ty::Base64 => "\"AQID\"".into(),
            Ty::Json => "\"{}\"".into(),
            _ => String::new(),
        }
    }
    fn default_value(&self, n: u32) -> Value {
        match self {
            Ty::Integer => json!(n),
            Ty::Float => json!(n as f64 + 0.5),
            Ty::Boolean => json!(true),
            Ty::Str => json!(format!("d{}", n)),
            Ty::Base64 => json!("AQID"),
            Ty::Json => json!({}),
            _ => Value::Null,
        }
    }
}

#[derive(Clone, Debug)]
struct FieldM {
    name: String,
    ty: Ty,
    nullable: bool,
    default: Option<u32>,
    deprecated: bool,
}
#[derive(Clone, Debug)]
struct EntityM {
    name: String,
    fields: Vec<FieldM>,
    indexes: Vec<String>,
    no_fts: bool,
}
#[derive(Clone, Debug)]
struct NsM {
    name: String,
    entities: Vec<EntityM>,
}
#[derive(Clone, Debug)]
struct ModelM {
    ns: Vec<NsM>,
}

impl ModelM {
    fn text(&self) -> String {
        let mut s = String::new();
        for ns in &self.ns {
            s.push_str(&format!("{} {{\n", ns.name));
            for e in &ns.entities {
                s.push_str(&format!("  {}{} {{\n", e.name, if e.no_fts { "(no_full_text_index)" } else { "" }));
                for f in &e.fields {
                    s.push_str(&format!(
                        "    {}{}: {}{}{},\n",
                        if f.deprecated { "@deprecated " } else { "" },
                        f.name,
                        f.ty.text(),
                        if f.nullable { " nullable" } else { "" },
                        match (&f.default, f.ty.is_scalar()) {
                            (Some(n), true) => format!(" default {}", f.ty.default_literal(*n)),
                            _ => String::new(),
                        }
                    ));
                }
                for i in &e.indexes {
                    s.push_str(&format!("    index({}),\n", i));
                }
                s.push_str("  }\n");
            }
            s.push_str("}\n");
        }
        s
    }
    fn full_name(ns: &str, e: &str) -> String {
        if ns.is_empty() {
            e.to_string()
        } else {
            format!("{}.{}", ns, e)
        }
    }
    fn entities(&self) -> Vec<(String, &EntityM)> {
        let mut v = Vec::new();
        for ns in &self.ns {
            for e in &ns.entities {
                v.push((Self::full_name(&ns.name, &e.name), e));
            }
        }
        v
    }
}

fn rand_scalar(rng: &mut StdRng) -> Ty {
    match rng.gen_range(0..6) {
        0 => Ty::Integer,
        1 => Ty::Float,
        2 => Ty::Boolean,
        3 | 4 => Ty::Str,
        _ => Ty::Base64,
    }
}

fn initial_model(rng: &mut StdRng) -> ModelM {
    let mut ns = vec![NsM { name: "".into(), entities: vec![] }];
    if rng.gen_bool(0.5) {
        ns.push(NsM { name: "na".into(), entities: vec![] });
    }
    let mut counter = 0;
    for n in &mut ns {
        for _ in 0..rng.gen_range(1..=2) {
            counter += 1;
            let mut fields = vec![FieldM { name: "f0".into(), ty: Ty::Str, nullable: false, default: None, deprecated: false }];
            for i in 1..rng.gen_range(1..4) {
                let ty = rand_scalar(rng);
                let nullable = rng.gen_bool(0.5);
                fields.push(FieldM { name: format!("f{}", i), ty, nullable, default: if nullable { None } else { Some(i as u32) }, deprecated: false });
            }
            n.entities.push(EntityM { name: format!("E{}", counter), fields, indexes: vec![], no_fts: false });
        }
    }
    // one case in four starts with a wide entity: field identifiers get a third digit after a few additions
    if rng.gen_bool(0.25) {
        let e = &mut ns[0].entities[0];
        let width = rng.gen_range(58..68);
        for i in e.fields.len()..width {
            e.fields.push(FieldM { name: format!("w{}", i), ty: if i % 2 == 0 { Ty::Str } else { Ty::Integer }, nullable: true, default: None, deprecated: false });
        }
    }
    ModelM { ns }
}

/// returns (new model, description, expected valid by the documented rules)
fn edit(m: &ModelM, rng: &mut StdRng, counter: &mut u32) -> (ModelM, String) {
    let mut n = m.clone();
    *counter += 1;
    let c = *counter;
    let ni = rng.gen_range(0..n.ns.len());
    let ei = rng.gen_range(0..n.ns[ni].entities.len().max(1));
    let has_entity = !n.ns[ni].entities.is_empty();
    let what = rng.gen_range(0..21);
    let desc: String = match what {
        0 => {
            n.ns.push(NsM { name: format!("nx{}", c), entities: vec![EntityM { name: format!("N{}", c), fields: vec![FieldM { name: "f0".into(), ty: Ty::Str, nullable: false, default: None, deprecated: false }], indexes: vec![], no_fts: false }] });
            "add-namespace".into()
        }
        1 | 2 => {
            n.ns[ni].entities.push(EntityM { name: format!("A{}", c), fields: vec![FieldM { name: "f0".into(), ty: Ty::Str, nullable: false, default: None, deprecated: false }, FieldM { name: "g".into(), ty: Ty::Integer, nullable: true, default: None, deprecated: false }], indexes: vec![], no_fts: false });
            "add-entity".into()
        }
        3 | 4 | 5 | 6 if has_entity => {
            let k = rng.gen_range(1..=5);
            // the widest entity grows more often than the others
            let (ni, ei) = if rng.gen_bool(0.5) {
                let mut best = (ni, ei, 0);
                for (a, nsm) in n.ns.iter().enumerate() {
                    for (b, e) in nsm.entities.iter().enumerate() {
                        if e.fields.len() > best.2 {
                            best = (a, b, e.fields.len());
                        }
                    }
                }
                (best.0, best.1)
            } else {
                (ni, ei)
            };
            for j in 0..k {
                let ty = rand_scalar(rng);
                let nullable = rng.gen_bool(0.5);
                n.ns[ni].entities[ei].fields.push(FieldM { name: format!("n{}x{}", c, j), ty, nullable, default: if nullable { None } else { Some(c) }, deprecated: false });
            }
            format!("add-{}-fields", k)
        }
        7 if has_entity => {
            let target = ModelM::full_name(&n.ns[ni].name, &n.ns[ni].entities[ei].name);
            n.ns[ni].entities[ei].fields.push(FieldM { name: format!("r{}", c), ty: if rng.gen_bool(0.5) { Ty::Ref(target) } else { Ty::Arr(target) }, nullable: true, default: None, deprecated: false });
            "add-reference-field".into()
        }
        8 if has_entity => {
            let e = &mut n.ns[ni].entities[ei];
            let fi = rng.gen_range(0..e.fields.len());
            if e.fields[fi].ty.is_scalar() {
                if e.fields[fi].nullable {
                    e.fields[fi].nullable = false;
                    e.fields[fi].default = Some(c);
                    "nullable-to-default".into()
                } else {
                    e.fields[fi].nullable = true;
                    e.fields[fi].default = None;
                    "to-nullable".into()
                }
            } else {
                "noop".into()
            }
        }
        9 if has_entity => {
            let e = &mut n.ns[ni].entities[ei];
            let fi = rng.gen_range(0..e.fields.len());
            e.fields[fi].deprecated = !e.fields[fi].deprecated;
            "toggle-deprecated".into()
        }
        10 if has_entity => {
            let e = &mut n.ns[ni].entities[ei];
            if e.indexes.is_empty() {
                let f = e.fields.iter().find(|f| f.ty.is_scalar() && f.ty != Ty::Json).map(|f| f.name.clone()).unwrap();
                e.indexes.push(f);
                "add-index".into()
            } else {
                e.indexes.clear();
                "remove-index".into()
            }
        }
        11 if has_entity => {
            n.ns[ni].entities[ei].no_fts = !n.ns[ni].entities[ei].no_fts;
            "toggle-full-text".into()
        }
        // invalid edits
        12 if has_entity && n.ns[ni].entities[ei].fields.len() > 1 => {
            n.ns[ni].entities[ei].fields.pop();
            "INVALID-remove-field".into()
        }
        13 if has_entity && n.ns[ni].entities[ei].fields.len() > 1 => {
            n.ns[ni].entities[ei].fields.swap(0, 1);
            "INVALID-reorder-fields".into()
        }
        14 if has_entity => {
            let e = &mut n.ns[ni].entities[ei];
            let fi = rng.gen_range(0..e.fields.len());
            e.fields[fi].ty = if e.fields[fi].ty == Ty::Integer { Ty::Str } else { Ty::Integer };
            e.fields[fi].default = None;
            e.fields[fi].nullable = true;
            "INVALID-retype-field".into()
        }
        15 if has_entity => {
            n.ns[ni].entities[ei].fields.push(FieldM { name: format!("m{}", c), ty: Ty::Integer, nullable: false, default: None, deprecated: false });
            "INVALID-new-field-without-default".into()
        }
        16 if n.ns[ni].entities.len() > 1 => {
            n.ns[ni].entities.swap(0, 1);
            "INVALID-reorder-entities".into()
        }
        17 if n.ns[ni].entities.len() > 1 => {
            n.ns[ni].entities.pop();
            "INVALID-remove-entity".into()
        }
        18 if n.ns.len() >= 2 && n.ns.iter().all(|x| !x.entities.is_empty()) => {
            // valid change in one entity, invalid in another (first entity of two namespaces)
            let a = 0;
            let b = n.ns.len() - 1;
            n.ns[a].entities[0].fields.push(FieldM { name: format!("ok{}", c), ty: Ty::Integer, nullable: true, default: None, deprecated: false });
            n.ns[b].entities[0].fields.push(FieldM { name: format!("bad{}", c), ty: Ty::Integer, nullable: false, default: None, deprecated: false });
            "INVALID-valid-for-one-entity-invalid-for-another".into()
        }
        19 if has_entity => {
            let e = &mut n.ns[ni].entities[ei];
            let fi = rng.gen_range(0..e.fields.len());
            if e.fields[fi].nullable && e.fields[fi].ty.is_scalar() {
                e.fields[fi].nullable = false;
                e.fields[fi].default = None;
                "INVALID-nullable-to-not-nullable-without-default".into()
            } else {
                "noop".into()
            }
        }
        20 => {
            // passes every check of the model parser and fails when it is stored: two entities whose names differ by
            // case only, both with an index on f0 (the storage engine's index names are case-insensitive)
            for name in [format!("Zc{}", c), format!("zc{}", c)] {
                n.ns[ni].entities.push(EntityM { name, fields: vec![FieldM { name: "f0".into(), ty: Ty::Str, nullable: false, default: None, deprecated: false }], indexes: vec!["f0".into()], no_fts: false });
            }
            "STORAGE-two-entities-differing-by-case-with-the-same-index".into()
        }
        _ => "noop".into(),
    };
    (n, desc)
}

/// entity full name -> (short name, field name -> short name)
fn identifiers(model_json: &Value) -> BTreeMap<String, (String, BTreeMap<String, String>)> {
    let mut out = BTreeMap::new();
    if let Some(nss) = model_json["namespaces"].as_object() {
        for (ns, ents) in nss {
            if ns == "sys" {
                continue;
            }
            if let Some(ents) = ents.as_object() {
                for (name, e) in ents {
                    let mut fields = BTreeMap::new();
                    if let Some(fs) = e["fields"].as_object() {
                        for (fname, f) in fs {
                            fields.insert(fname.clone(), f["short_name"].as_str().unwrap_or("").to_string());
                        }
                    }
                    out.insert(name.clone(), (e["short_name"].as_str().unwrap_or("").to_string(), fields));
                }
            }
        }
    }
    out
}

async fn model_json(p: &Peer) -> Value {
    serde_json::from_str(&p.db.datamodel().await.unwrap_or_default()).unwrap_or(Value::Null)
}

async fn stored_model(p: &Peer) -> Option<String> {
    p.snapshot().await.config.get("Data Model").cloned().flatten()
}

async fn index_list(p: &Peer) -> Vec<String> {
    p.read(|c| {
        let mut st = c.prepare("SELECT name FROM sqlite_master WHERE type='index' AND name LIKE 'idx$%' ORDER BY name").unwrap();
        let rows = st.query_map([], |r| r.get::<_, String>(0)).unwrap();
        rows.filter_map(|r| r.ok()).collect::<Vec<_>>()
    })
    .await
}

/// all rows of every entity with all scalar fields, as JSON
async fn read_all(p: &Peer, m: &ModelM) -> BTreeMap<String, Result<Value, String>> {
    let mut out = BTreeMap::new();
    for (name, e) in m.entities() {
        let fields: Vec<String> = e.fields.iter().filter(|f| f.ty.is_scalar()).map(|f| f.name.clone()).collect();
        // at most 40 fields per request: the width of one selection is not this property's subject (the engine limits
        // the number of arguments of one function call, see the C14 finding); the parts are merged row by row
        let mut merged: Result<Value, String> = Ok(json!([]));
        for (ci, chunk) in fields.chunks(40).enumerate() {
            let q = format!("query {{ r: {}(order_by(id asc)){{ id {} }} }}", name, chunk.join(" "));
            match p.query_json(&q, None).await {
                Err(e) => {
                    merged = Err(e);
                    break;
                }
                Ok(v) => {
                    let rows = v["r"].as_array().cloned().unwrap_or_default();
                    if ci == 0 {
                        merged = Ok(Value::Array(rows));
                    } else if let Ok(Value::Array(acc_rows)) = &mut merged {
                        for (a, b) in acc_rows.iter_mut().zip(rows.into_iter()) {
                            if let (Some(ao), Some(bo)) = (a.as_object_mut(), b.as_object()) {
                                for (k, v) in bo {
                                    ao.insert(k.clone(), v.clone());
                                }
                            }
                        }
                    }
                }
            }
        }
        if fields.is_empty() {
            let q = format!("query {{ r: {}(order_by(id asc)){{ id }} }}", name);
            merged = p.query_json(&q, None).await.map(|v| v["r"].clone());
        }
        out.insert(name, merged);
    }
    out
}

async fn write_rows(p: &Peer, m: &ModelM, version: u32) -> Vec<String> {
    let mut errors = Vec::new();
    for (name, e) in m.entities() {
        let mut prm = Parameters::new();
        let mut body = String::new();
        for f in &e.fields {
            if !f.ty.is_scalar() {
                continue;
            }
            let pn = format!("p_{}", f.name);
            match f.ty {
                Ty::Integer => prm.add(&pn, version as i64 * 10).unwrap(),
                Ty::Float => prm.add(&pn, version as f64 + 0.25).unwrap(),
                Ty::Boolean => prm.add(&pn, version % 2 == 0).unwrap(),
                Ty::Str => prm.add(&pn, format!("v{} {}", version, f.name)).unwrap(),
                Ty::Base64 => prm.add(&pn, "BAUG".to_string()).unwrap(),
                Ty::Json => prm.add(&pn, format!("{{\"v\":{}}}", version)).unwrap(),
                _ => {}
            }
            body.push_str(&format!("{}:${} ", f.name, pn));
        }
        let text = format!("mutate {{ {}{{ {} }} }}", name, body);
        if let Err(err) = p.mutate(&text, Some(prm)).await {
            errors.push(format!("{}: {}", name, err));
        }
    }
    errors
}

fn run_case<'a>(ctx: &'a Ctx, case: u64, acc: &'a mut Acc) -> CaseFut<'a> {
    Box::pin(async move {
        clock_real();
        let mut rng = ctx.rng(case);
        let dir = ctx.case_dir(case);
        let seed = ctx.case_seed(case);
        let mut model = initial_model(&mut rng);
        let mut counter = 0u32;
        let mut history: Vec<Value> = vec![json!({"version": 0, "edit": "initial", "text": model.text()})];
        let p1 = match Peer::start("runtime", seed, 0, &model.text(), &dir.join("p1"), small_config()).await {
            Ok(p) => p,
            Err(e) => {
                acc.violation("C15/valid-initial-model-refused", json!({"error": e, "text": model.text()}));
                return;
            }
        };
        let mut p2 = match Peer::start("startup", seed, 1, &model.text(), &dir.join("p2"), small_config()).await {
            Ok(p) => p,
            Err(e) => {
                acc.inconclusive(e);
                return;
            }
        };
        let errs = write_rows(&p1, &model, 0).await;
        if !errs.is_empty() {
            acc.violation("C15/row-of-a-valid-model-refused", json!({"errors": errs, "history": history}));
            return;
        }
        write_rows(&p2, &model, 0).await;
        let n_versions = rng.gen_range(3..=ctx.tier.pick(7, 10));
        let mut ids_prev = identifiers(&model_json(&p1).await);
        let mut edits: Vec<String> = Vec::new();
        let (mut multi_add, mut had_refusal) = (false, false);
        for version in 1..=n_versions {
            let (candidate, desc) = edit(&model, &mut rng, &mut counter);
            if desc == "noop" {
                continue;
            }
            let text = candidate.text();
            let before_json = model_json(&p1).await;
            let before_stored = stored_model(&p1).await;
            let before_rows = read_all(&p1, &model).await;
            let before_idx = index_list(&p1).await;
            // the library's own verdict on a copy of the current model
            let lib_verdict: Result<(), String> = match serde_json::from_value::<DataModel>(before_json.clone()) {
                Ok(mut dm) => dm.update(&text).map_err(|e| e.to_string()),
                Err(e) => Err(format!("cannot deserialize the reported model: {}", e)),
            };
            let _ = p1.db.update_data_model(&text).await;
            let after_json = model_json(&p1).await;
            let accepted = after_json["model"].as_str() == Some(text.as_str());
            edits.push(format!("{}{}", desc, if accepted { "+" } else { "-" }));
            acc.count(&format!("edit/{}/{}", desc, if accepted { "accepted" } else { "refused" }), 1);
            history.push(json!({"version": version, "edit": desc, "accepted": accepted, "library_verdict_on_a_copy": format!("{:?}", lib_verdict), "text": text}));
            let witness = |why: Value, h: &Vec<Value>| json!({"why": why, "history": h});
            if accepted != lib_verdict.is_ok() {
                acc.count("verdict_of_instance_differs_from_verdict_on_copy", 1);
            }
            if !accepted {
                had_refusal = true;
                // R4 a refused version changes nothing
                let after_stored = stored_model(&p1).await;
                let after_rows = read_all(&p1, &model).await;
                let after_idx = index_list(&p1).await;
                if after_json != before_json {
                    fn jdiff(a: &Value, b: &Value, path: String, out: &mut Vec<String>) {
                        match (a, b) {
                            (Value::Object(x), Value::Object(y)) => {
                                for (k, v) in x {
                                    match y.get(k) {
                                        Some(w) => jdiff(v, w, format!("{}/{}", path, k), out),
                                        None => out.push(format!("{}/{} removed", path, k)),
                                    }
                                }
                                for k in y.keys() {
                                    if !x.contains_key(k) {
                                        out.push(format!("{}/{} added", path, k));
                                    }
                                }
                            }
                            _ => {
                                if a != b {
                                    out.push(format!("{}: {} -> {}", path, a.to_string().chars().take(60).collect::<String>(), b.to_string().chars().take(60).collect::<String>()));
                                }
                            }
                        }
                    }
                    let mut d = Vec::new();
                    jdiff(&before_json, &after_json, String::new(), &mut d);
                    history.push(json!({"model_differences": d.iter().take(12).collect::<Vec<_>>()}));
                    acc.violation(
                        format!("C15/refused-version-changed-the-running-model/{}", desc.trim_start_matches("INVALID-")),
                        witness(json!({"identifiers_before": format!("{:?}", identifiers(&before_json)), "identifiers_after": format!("{:?}", identifiers(&after_json))}), &history),
                    );
                    return;
                }
                if after_stored != before_stored {
                    acc.violation("C15/refused-version-changed-the-stored-model", witness(json!({}), &history));
                    return;
                }
                if after_rows != before_rows {
                    acc.violation("C15/refused-version-changed-query-results", witness(json!({}), &history));
                    return;
                }
                if after_idx != before_idx {
                    acc.violation("C15/refused-version-changed-the-indexes", witness(json!({"before": before_idx, "after": after_idx}), &history));
                    return;
                }
                // start-up path: a restart with the refused text must fail or change nothing; the
                // next start with the last accepted text must succeed
                let _ = Peer::start("startup-refused", seed, 1, &text, &dir.join("p2"), small_config()).await;
                continue;
            }
            // accepted
            if desc.starts_with("add-2") || desc.starts_with("add-3") || desc == "add-entity" {
                multi_add = true;
            }
            let ids_now = identifiers(&after_json);
            // R2 identifiers stable and unique
            for (ent, (short, fields)) in &ids_prev {
                match ids_now.get(ent) {
                    None => {
                        acc.violation("C15/entity-disappeared-from-the-model", witness(json!({"entity": ent}), &history));
                        return;
                    }
                    Some((s2, f2)) => {
                        if s2 != short {
                            acc.violation("C15/entity-identifier-changed", witness(json!({"entity": ent, "before": short, "after": s2}), &history));
                            return;
                        }
                        for (f, fs) in fields {
                            if f2.get(f) != Some(fs) {
                                acc.violation("C15/field-identifier-changed", witness(json!({"entity": ent, "field": f, "before": fs, "after": f2.get(f)}), &history));
                                return;
                            }
                        }
                    }
                }
            }
            let mut shorts: Vec<&String> = ids_now.values().map(|v| &v.0).collect();
            let n = shorts.len();
            shorts.sort();
            shorts.dedup();
            if shorts.len() != n {
                acc.violation("C15/two-entities-share-one-identifier", witness(json!({"identifiers": format!("{:?}", ids_now)}), &history));
                return;
            }
            for (ent, (_, fields)) in &ids_now {
                let mut fs: Vec<&String> = fields.values().collect();
                let n = fs.len();
                fs.sort();
                fs.dedup();
                if fs.len() != n {
                    acc.violation("C15/two-fields-share-one-identifier", witness(json!({"entity": ent, "fields": format!("{:?}", fields)}), &history));
                    return;
                }
            }
            acc.count("identifier_sets_compared", 1);
            // R1 earlier rows read the same under the same names
            let after_rows = read_all(&p1, &candidate).await;
            for (ent, rows_before) in &before_rows {
                let (Ok(rb), Some(Ok(ra))) = (rows_before, after_rows.get(ent)) else {
                    if let Some(Err(e)) = after_rows.get(ent) {
                        acc.violation("C15/query-fails-after-accepted-version", witness(json!({"entity": ent, "error": e}), &history));
                        return;
                    }
                    continue;
                };
                let (Some(rb), Some(ra)) = (rb.as_array(), ra.as_array()) else { continue };
                if rb.len() != ra.len() {
                    acc.violation("C15/rows-lost-after-accepted-version", witness(json!({"entity": ent, "before": rb.len(), "after": ra.len()}), &history));
                    return;
                }
                let old_entity = model.entities().into_iter().find(|x| &x.0 == ent).map(|x| x.1.clone());
                let new_entity = candidate.entities().into_iter().find(|x| &x.0 == ent).map(|x| x.1.clone());
                for (b, a) in rb.iter().zip(ra.iter()) {
                    if let Some(bo) = b.as_object() {
                        for (k, v) in bo {
                            let mut expected = v.clone();
                            // a field that became not nullable with a default reads its default when null
                            if v.is_null() {
                                if let Some(ne) = &new_entity {
                                    if let Some(f) = ne.fields.iter().find(|f| &f.name == k) {
                                        if let (false, Some(d)) = (f.nullable, f.default) {
                                            expected = f.ty.default_value(d);
                                        }
                                    }
                                }
                            }
                            // a field that became nullable: rows that relied on the default keep showing what is stored; both are accepted
                            let got = &a[k];
                            if expected == json!(true) && got == &json!(1) {
                                continue;
                            }
                            let lenient = old_entity.as_ref().and_then(|oe| oe.fields.iter().find(|f| &f.name == k)).map(|f| f.default.is_some()).unwrap_or(false);
                            if got != &expected && !(lenient && (got.is_null() || got == v)) {
                                acc.violation(
                                    "C15/existing-row-reads-differently-after-accepted-version",
                                    witness(json!({"entity": ent, "field": k, "before": v, "after": got}), &history),
                                );
                                return;
                            }
                        }
                    }
                    // new fields read null or their default
                    if let Some(ne) = &new_entity {
                        for f in ne.fields.iter().filter(|f| f.ty.is_scalar()) {
                            if b.get(&f.name).is_none() {
                                let got = &a[&f.name];
                                // a defaulted Boolean is rendered as the integer 1 / 0: this representation is
                                // fixed by the repository's own test query_with_null_default
                                let ok = match (f.nullable, f.default) {
                                    (false, Some(d)) => {
                                        got == &f.ty.default_value(d)
                                            || (f.ty == Ty::Boolean && got == &json!(1))
                                    }
                                    _ => got.is_null(),
                                };
                                if !ok {
                                    acc.violation("C15/new-field-of-an-existing-row-is-neither-null-nor-default", witness(json!({"entity": ent, "field": f.name, "value": got}), &history));
                                    return;
                                }
                            }
                        }
                    }
                }
            }
            acc.count("row_sets_compared", before_rows.len() as u64);
            // rows under the new version
            let errs = write_rows(&p1, &candidate, version).await;
            if !errs.is_empty() {
                acc.violation("C15/row-of-an-accepted-model-refused", witness(json!({"errors": errs}), &history));
                return;
            }
            // start-up application on the other instance
            match Peer::start("startup", seed, 1, &text, &dir.join("p2"), small_config()).await {
                Err(e) => {
                    acc.violation(
                        format!("C15/version-accepted-at-run-time-refused-at-start-up/{}", desc),
                        witness(json!({"error": e}), &history),
                    );
                    return;
                }
                Ok(np) => p2 = np,
            }
            write_rows(&p2, &candidate, version).await;
            let ids2 = identifiers(&model_json(&p2).await);
            if ids2 != ids_now {
                let diff: Vec<String> = ids_now.iter().filter(|(k, v)| ids2.get(*k) != Some(v)).map(|(k, v)| format!("{}: runtime {:?} startup {:?}", k, v, ids2.get(k))).collect();
                acc.violation(
                    format!("C15/instances-disagree-on-identifiers/{}", desc),
                    witness(json!({"differences": diff}), &history),
                );
                return;
            }
            // R5 restart of the run-time instance with the same text: succeeds, same identifiers
            match Peer::start("runtime-restart", seed, 0, &text, &dir.join("p1"), small_config()).await {
                Err(e) => {
                    acc.violation(
                        format!("C15/restart-with-the-same-model-refused/{}", desc),
                        witness(json!({"error": e}), &history),
                    );
                    return;
                }
                Ok(r) => {
                    let ids3 = identifiers(&model_json(&r).await);
                    if ids3 != ids_now {
                        acc.violation("C15/restart-with-the-same-model-changed-identifiers", witness(json!({}), &history));
                        return;
                    }
                }
            }
            acc.count("restarts", 2);
            model = candidate;
            ids_prev = ids_now;
        }
        let key = if multi_add && had_refusal { Some(edits.join(",")) } else { None };
        acc.held(key);
        acc.sample(json!({"edits": edits}));
    })
}
