//! registry of property checks
use crate::runner::PropDef;

pub mod c01;
pub mod c02;
pub mod c03;
pub mod c04;
pub mod c05;
pub mod c06;
pub mod c07;
pub mod c08;
pub mod c09;
pub mod c10;
pub mod c11;
pub mod c12;
pub mod c13;
pub mod c14;
pub mod c15;
pub mod c16;
pub mod c17;
pub mod c18;
pub mod c19;
pub mod c20;
pub mod c20s;

pub fn all() -> Vec<&'static PropDef> {
    vec![&c01::DEF, &c02::DEF, &c03::DEF, &c04::DEF, &c05::DEF, &c06::DEF, &c07::DEF, &c08::DEF, &c09::DEF, &c10::DEF, &c11::DEF, &c12::DEF, &c13::DEF, &c14::DEF, &c15::DEF, &c16::DEF, &c17::DEF, &c18::DEF, &c19::DEF, &c20::DEF]
}

pub fn find(id: &str) -> Option<&'static PropDef> {
    all().into_iter().find(|d| d.id == id)
}

/// property specific child processes: `dv child <name> args...`
pub fn run_child(args: &[String]) {
    let name = args.first().map(|s| s.as_str()).unwrap_or("");
    match name {
        "c13" => c13::child_main(&args[1..]),
        "c14" => c14::child_main(&args[1..]),
        _ => {
            eprintln!("unknown child {}", name);
            std::process::exit(2);
        }
    }
}
