//! C06 — A signature binds exactly one row and only its author can produce it.
use crate::peer::Identity;
use crate::repl::{Op, Scenario};
use crate::runner::{Acc, CaseFut, Ctx, PropDef};
use discret::verif::database::edge::{Edge, EdgeDeletionEntry};
use discret::verif::database::node::{Node, NodeDeletionEntry};
use discret::verif::security::SigningKey;
use discret::verif::synchronisation::peer_outbound_service::{InboundQueryService, RemotePeerHandle};
use discret::verif::synchronisation::{Answer, IdentityAnswer, Query, QueryProtocol};
use rand::rngs::StdRng;
use rand::Rng;
use serde_json::json;
use std::collections::HashSet;
use std::sync::atomic::AtomicBool;
use std::sync::Arc;
use tokio::sync::{mpsc, Mutex};

pub static DEF: PropDef = PropDef {
    id: "C06",
    level: "exploration",
    rule: "(a) rows of every signed kind are generated and signed with the library's own sign(); for each, candidate rows B != A are derived by moving bytes across every pair of adjacent variable-length fields, toggling optional fields while keeping the hashed byte stream, re-reading the stream as another kind, and (control) editing one field; B carries A's signature and key and B.verify() must fail. (b) every row stored by a replication workload is re-verified from the snapshot. (c) digests of rows crafted for a running instance's key are submitted as identity challenges to the real inbound query handler and the answer is tried as the row's signature. non-trivial = pair differing only by a boundary move, an optional-field toggle or the kind; distinct = (kind, mutation class, lengths) Also: other spellings of the same JSON value (whitespace, key order, duplicate key, unicode escape) under the same signature.",
    assumptions: &[
        "existential unforgeability of Ed25519 and collision resistance of BLAKE3 are out of reach of runtime monitoring and are assumed; what is decided is the encoding of rows into signed bytes and the peer-reachable signing requests",
    ],
    cases: |t| t.pick(16, 64),
    shards: |t| t.pick(8, 16),
    case_budget_s: |_| 600,
    min_conclusive: |t| t.pick(8, 32),
    run_case,
    finish: None,
    worker_threads: 4,
    tokio_per_case: true,
};

fn rand_string(rng: &mut StdRng, min: usize, max: usize) -> String {
    let n = rng.gen_range(min..=max);
    let alphabet: Vec<char> = "ab01.\"{}:x ".chars().collect();
    (0..n).map(|_| alphabet[rng.gen_range(0..alphabet.len())]).collect()
}

fn rand_json(rng: &mut StdRng) -> String {
    match rng.gen_range(0..4) {
        0 => "{}".to_string(),
        1 => format!("{{\"32\":\"{}\"}}", rand_string(rng, 0, 6).replace('"', "").replace('\\', "")),
        2 => format!("{{\"32\":{}}}", rng.gen_range(0..1000)),
        _ => format!("{{\"a\":\"{}\",\"b\":{{}}}}", rand_string(rng, 0, 4).replace('"', "")),
    }
}

fn rand_node(rng: &mut StdRng) -> Node {
    let mut id = [0u8; 16];
    rng.fill(&mut id);
    let mut room = [0u8; 16];
    rng.fill(&mut room);
    Node {
        id,
        room_id: if rng.gen_bool(0.6) { Some(room) } else { None },
        cdate: rng.gen_range(0..i64::MAX / 2),
        mdate: rng.gen_range(0..i64::MAX / 2),
        _entity: rand_string(rng, 1, 8),
        _json: if rng.gen_bool(0.7) { Some(rand_json(rng)) } else { None },
        _binary: if rng.gen_bool(0.4) {
            let n = rng.gen_range(0..40);
            Some((0..n).map(|_| rng.gen()).collect())
        } else {
            None
        },
        verifying_key: vec![],
        _signature: vec![],
        _local_id: None,
    }
}

fn rand_edge(rng: &mut StdRng) -> Edge {
    let mut src = [0u8; 16];
    rng.fill(&mut src);
    let mut dest = [0u8; 16];
    rng.fill(&mut dest);
    Edge {
        src,
        src_entity: rand_string(rng, 1, 6),
        label: rand_string(rng, 1, 6),
        dest,
        cdate: rng.gen_range(0..i64::MAX / 2),
        verifying_key: vec![],
        signature: vec![],
    }
}

/// candidate nodes that hash to the same byte stream (when one exists) or differ by one field
fn node_candidates(a: &Node, rng: &mut StdRng) -> Vec<(&'static str, Node)> {
    let mut out = Vec::new();
    let ser = |s: &String| serde_json::to_string(s).unwrap();
    // entity | json : the serialised json string is appended to the entity
    if let Some(j) = &a._json {
        let mut b = a.clone();
        b._entity = format!("{}{}", a._entity, ser(j));
        b._json = None;
        out.push(("node/entity|json/json-absorbed-by-entity", b));
        // move k bytes of the entity's tail is impossible (the json starts with a quote); move the
        // head of the serialised json into the entity and keep a valid json object in the rest is
        // not possible either; the absorbing variant above is the boundary case
    }
    // the signature binds the json column as stored: other spellings of the same value are other rows
    if let Some(j) = &a._json {
        if let Ok(serde_json::Value::Object(map)) = serde_json::from_str::<serde_json::Value>(j) {
            let mut b = a.clone();
            b._json = Some(format!(" {}", j));
            out.push(("node/json-respelled/leading-whitespace", b));
            let mut b = a.clone();
            b._json = Some(j.replacen(':', " : ", 1));
            out.push(("node/json-respelled/whitespace-inside", b));
            if let Some((k, v)) = map.iter().next() {
                // a duplicate key: parsers keep the last one, the storage engine reads the first one
                let dup = format!("{{{}:\"shadow\",{}", serde_json::to_string(k).unwrap(), &j.trim_start()[1..]);
                if serde_json::from_str::<serde_json::Value>(&dup).is_ok() {
                    let mut b = a.clone();
                    b._json = Some(dup);
                    out.push(("node/json-respelled/duplicate-key", b));
                }
                let _ = v;
            }
            if map.len() >= 2 {
                let mut items: Vec<(String, serde_json::Value)> = map.iter().map(|(k, v)| (k.clone(), v.clone())).collect();
                items.reverse();
                let text = format!("{{{}}}", items.iter().map(|(k, v)| format!("{}:{}", serde_json::to_string(k).unwrap(), v)).collect::<Vec<_>>().join(","));
                if &text != j {
                    let mut b = a.clone();
                    b._json = Some(text);
                    out.push(("node/json-respelled/key-order", b));
                }
            }
            // an escaped spelling of the first letter found in a string
            if let Some(pos) = j.find(|c: char| c.is_ascii_lowercase()) {
                let c = j.as_bytes()[pos] as char;
                let inside_string = j[..pos].matches('"').count() % 2 == 1;
                if inside_string {
                    let mut b = a.clone();
                    b._json = Some(format!("{}\\u{:04x}{}", &j[..pos], c as u32, &j[pos + 1..]));
                    out.push(("node/json-respelled/unicode-escape", b));
                }
            }
        }
    }
    // json | binary : binary = bytes of the serialised json
    if a._binary.is_none() {
        if let Some(j) = &a._json {
            let mut b = a.clone();
            b._json = None;
            b._binary = Some(ser(j).into_bytes());
            out.push(("node/json|binary/json-as-binary", b));
        }
    }
    if let (Some(j), Some(bin)) = (&a._json, &a._binary) {
        let mut b = a.clone();
        b._json = None;
        let mut v = ser(j).into_bytes();
        v.extend(bin);
        b._binary = Some(v);
        out.push(("node/json|binary/json-prepended-to-binary", b));
    }
    // entity | binary when json is absent: move k bytes
    if a._json.is_none() {
        if let Some(bin) = &a._binary {
            if !bin.is_empty() && bin[0].is_ascii_alphanumeric() {
                let mut b = a.clone();
                b._entity.push(bin[0] as char);
                b._binary = Some(bin[1..].to_vec());
                out.push(("node/entity|binary/byte-moved", b));
            }
            if a._entity.len() > 1 {
                let mut b = a.clone();
                let last = b._entity.pop().unwrap();
                let mut v = vec![last as u8];
                if last.is_ascii() {
                    v.extend(bin);
                    b._binary = Some(v);
                    out.push(("node/entity|binary/byte-moved-back", b));
                }
            }
        }
    }
    // binary: empty vs absent
    if a._binary.is_none() {
        let mut b = a.clone();
        b._binary = Some(vec![]);
        out.push(("node/binary/empty-vs-absent", b));
    }
    // room_id optional: absent room, the 16 bytes after the id are read as the room
    if a.room_id.is_none() && a._entity.len() >= 17 {
        // only when the entity is long enough to give back 16 bytes; rare with short entities
    }
    if let Some(r) = a.room_id {
        // room present -> absent: the room bytes become cdate|mdate, the old dates the head of the entity
        let old_dates: Vec<u8> = a
            .cdate
            .to_le_bytes()
            .iter()
            .chain(a.mdate.to_le_bytes().iter())
            .copied()
            .collect();
        if let Ok(head) = String::from_utf8(old_dates) {
            let mut b = a.clone();
            b.room_id = None;
            b.cdate = i64::from_le_bytes(r[0..8].try_into().unwrap());
            b.mdate = i64::from_le_bytes(r[8..16].try_into().unwrap());
            b._entity = format!("{}{}", head, a._entity);
            out.push(("node/room-toggle/room-read-as-dates", b));
        }
    }
    // controls: one field edited
    let mut b = a.clone();
    b.mdate = b.mdate.wrapping_add(1);
    out.push(("node/control/mdate", b));
    let mut b = a.clone();
    b.id[rng.gen_range(0..16)] ^= 1;
    out.push(("node/control/id", b));
    let mut b = a.clone();
    b._entity.push('x');
    out.push(("node/control/entity", b));
    if let Some(j) = &a._json {
        let mut b = a.clone();
        b._json = Some(j.replacen('{', "{\"z\":1,", 1).replace(",}", "}"));
        out.push(("node/control/json", b));
    }
    let mut b = a.clone();
    b.room_id = match a.room_id {
        Some(mut r) => {
            r[0] ^= 1;
            Some(r)
        }
        None => Some([3; 16]),
    };
    out.push(("node/control/room", b));
    out
}

fn edge_candidates(a: &Edge, rng: &mut StdRng) -> Vec<(&'static str, Edge)> {
    let mut out = Vec::new();
    if a.label.len() > 1 {
        let mut b = a.clone();
        let c = b.label.remove(0);
        b.src_entity.push(c);
        out.push(("edge/src_entity|label/byte-moved-forward", b));
    }
    if a.src_entity.len() > 1 {
        let mut b = a.clone();
        let c = b.src_entity.pop().unwrap();
        b.label.insert(0, c);
        out.push(("edge/src_entity|label/byte-moved-back", b));
    }
    let mut b = a.clone();
    b.cdate = b.cdate.wrapping_add(1);
    out.push(("edge/control/cdate", b));
    let mut b = a.clone();
    b.dest[rng.gen_range(0..16)] ^= 1;
    out.push(("edge/control/dest", b));
    let mut b = a.clone();
    b.src[rng.gen_range(0..16)] ^= 1;
    out.push(("edge/control/src", b));
    let mut b = a.clone();
    b.label.push('x');
    out.push(("edge/control/label", b));
    out
}

fn node_differs(a: &Node, b: &Node) -> bool {
    a.id != b.id
        || a.room_id != b.room_id
        || a.cdate != b.cdate
        || a.mdate != b.mdate
        || a._entity != b._entity
        || a._json != b._json
        || a._binary != b._binary
}

fn run_case<'a>(ctx: &'a Ctx, case: u64, acc: &'a mut Acc) -> CaseFut<'a> {
    Box::pin(async move {
        let mut rng = ctx.rng(case);
        let id = Identity::new(ctx.case_seed(case), 77);
        let pairs = ctx.tier.pick(4_000, 60_000);
        let mut violated = false;
        // (a) pairs
        for i in 0..pairs {
            if i % 3 != 2 {
                let mut a = rand_node(&mut rng);
                if a.sign(&id.signing).is_err() {
                    continue;
                }
                if a.verify().is_err() {
                    acc.violation("C06/own-signature-does-not-verify/node", json!({"node": format!("{:?}", a)}));
                    violated = true;
                    continue;
                }
                for (class, mut b) in node_candidates(&a, &mut rng) {
                    b._signature = a._signature.clone();
                    b.verifying_key = a.verifying_key.clone();
                    if !node_differs(&a, &b) {
                        continue;
                    }
                    acc.count("pairs_checked", 1);
                    acc.count(&format!("class/{}", class), 1);
                    if b.verify().is_ok() {
                        acc.violation(
                            format!("C06/one-signature-two-rows/{}", class),
                            json!({"a": format!("{:?}", a), "b": format!("{:?}", b)}),
                        );
                        violated = true;
                    } else if !class.contains("control") {
                        acc.nontrivial(format!("{}/{}/{}", class, a._entity.len(), a._json.as_ref().map(|j| j.len()).unwrap_or(0)));
                    }
                }
                // cross kind: the node's signature on a deletion record or an edge built from its fields
                let del = NodeDeletionEntry {
                    room_id: a.room_id.unwrap_or([0; 16]),
                    id: a.id,
                    entity: a._entity.clone(),
                    mdate: a.mdate,
                    deletion_date: a.cdate,
                    verifying_key: a.verifying_key.clone(),
                    signature: a._signature.clone(),
                    entity_name: None,
            enable_full_text: false,
                };
                acc.count("pairs_checked", 1);
                acc.count("class/kind/node-signature-on-deletion-record", 1);
                if del.verify().is_ok() {
                    acc.violation("C06/one-signature-two-rows/kind/node-signature-on-deletion-record", json!({"a": format!("{:?}", a)}));
                    violated = true;
                } else {
                    acc.nontrivial(format!("kind/node-vs-deletion/{}", a._entity.len()));
                }
                // deletion record of this node: boundary entity | deletion date
                let d = NodeDeletionEntry::build(a.room_id.unwrap_or([0; 16]), &a, a.mdate + 9, &id.signing);
                acc.count("pairs_checked", 1);
                if d.verify().is_err() {
                    acc.violation("C06/own-signature-does-not-verify/node-deletion", json!({}));
                    violated = true;
                }
                if d.entity.len() > 1 && d.entity.is_char_boundary(d.entity.len() - 1) {
                    let mut b = NodeDeletionEntry::build(a.room_id.unwrap_or([0; 16]), &a, a.mdate + 9, &id.signing);
                    let c = b.entity.pop().unwrap();
                    if c.is_ascii() {
                        let dd = d.deletion_date.to_le_bytes();
                        let mut nd = [0u8; 8];
                        nd[0] = c as u8;
                        nd[1..8].copy_from_slice(&dd[0..7]);
                        b.deletion_date = i64::from_le_bytes(nd);
                        acc.count("pairs_checked", 1);
                        acc.count("class/node-deletion/entity|deletion_date/byte-moved", 1);
                        if b.verify().is_ok() {
                            acc.violation("C06/one-signature-two-rows/node-deletion/entity|deletion_date/byte-moved", json!({}));
                            violated = true;
                        } else {
                            acc.nontrivial(format!("node-deletion/entity|deletion_date/{}", d.entity.len()));
                        }
                    }
                }
                let mut b = NodeDeletionEntry::build(a.room_id.unwrap_or([0; 16]), &a, a.mdate + 9, &id.signing);
                b.mdate += 1;
                if b.verify().is_ok() {
                    acc.violation("C06/one-signature-two-rows/node-deletion/control/mdate", json!({}));
                    violated = true;
                }
                let mut b = NodeDeletionEntry::build(a.room_id.unwrap_or([0; 16]), &a, a.mdate + 9, &id.signing);
                b.room_id[3] ^= 1;
                if b.verify().is_ok() {
                    acc.violation("C06/one-signature-two-rows/node-deletion/control/room", json!({}));
                    violated = true;
                }
            } else {
                let mut a = rand_edge(&mut rng);
                if a.sign(&id.signing).is_err() || a.verify().is_err() {
                    continue;
                }
                for (class, mut b) in edge_candidates(&a, &mut rng) {
                    b.signature = a.signature.clone();
                    b.verifying_key = a.verifying_key.clone();
                    acc.count("pairs_checked", 1);
                    acc.count(&format!("class/{}", class), 1);
                    if b.verify().is_ok() {
                        acc.violation(
                            format!("C06/one-signature-two-rows/{}", class),
                            json!({"a": format!("{:?}", a), "b": format!("{:?}", b)}),
                        );
                        violated = true;
                    } else if !class.contains("control") {
                        acc.nontrivial(format!("{}/{}/{}", class, a.src_entity.len(), a.label.len()));
                    }
                }
                // cross kind: edge signature on an edge deletion record (room = src, same other fields)
                let del = EdgeDeletionEntry {
                    room_id: a.src,
                    src: a.src,
                    src_entity: a.src_entity.clone(),
                    dest: a.dest,
                    label: a.label.clone(),
                    cdate: a.cdate,
                    deletion_date: a.cdate,
                    verifying_key: a.verifying_key.clone(),
                    signature: a.signature.clone(),
                    entity_name: None,
                };
                acc.count("pairs_checked", 1);
                if del.verify().is_ok() {
                    acc.violation("C06/one-signature-two-rows/kind/edge-signature-on-deletion-record", json!({"a": format!("{:?}", a)}));
                    violated = true;
                } else {
                    acc.nontrivial(format!("kind/edge-vs-deletion/{}", a.label.len()));
                }
                // boundary label | dest: the last byte of the label becomes the first byte of dest
                if a.label.len() > 1 {
                    let mut b = a.clone();
                    let c = b.label.pop().unwrap();
                    if c.is_ascii() {
                        let mut nd = [0u8; 16];
                        nd[0] = c as u8;
                        nd[1..16].copy_from_slice(&a.dest[0..15]);
                        b.dest = nd;
                        b.signature = a.signature.clone();
                        b.verifying_key = a.verifying_key.clone();
                        acc.count("pairs_checked", 1);
                        acc.count("class/edge/label|dest/byte-moved", 1);
                        if b.verify().is_ok() {
                            acc.violation("C06/one-signature-two-rows/edge/label|dest/byte-moved", json!({}));
                            violated = true;
                        } else {
                            acc.nontrivial(format!("edge/label|dest/{}", a.label.len()));
                        }
                    }
                }
                // deletion record: the same src_entity | label boundary
                if a.label.len() > 1 {
                    let mut e2 = a.clone();
                    let c = e2.label.remove(0);
                    e2.src_entity.push(c);
                    let mut b = EdgeDeletionEntry::build(a.src, &a, a.cdate + 5, &id.signing);
                    b.src_entity = e2.src_entity.clone();
                    b.label = e2.label.clone();
                    acc.count("pairs_checked", 1);
                    acc.count("class/edge-deletion/src_entity|label/byte-moved-forward", 1);
                    if b.verify().is_ok() {
                        acc.violation("C06/one-signature-two-rows/edge-deletion/src_entity|label/byte-moved-forward", json!({}));
                        violated = true;
                    }
                }
                // deletion record controls
                let d = EdgeDeletionEntry::build(a.src, &a, a.cdate + 5, &id.signing);
                let mut d2 = EdgeDeletionEntry::build(a.src, &a, a.cdate + 5, &id.signing);
                d2.deletion_date += 1;
                acc.count("pairs_checked", 1);
                if d.verify().is_err() {
                    acc.violation("C06/own-signature-does-not-verify/edge-deletion", json!({}));
                    violated = true;
                }
                if d2.verify().is_ok() {
                    acc.violation("C06/one-signature-two-rows/edge-deletion/control/deletion-date", json!({}));
                    violated = true;
                }
                let mut d3 = EdgeDeletionEntry::build(a.src, &a, a.cdate + 5, &id.signing);
                d3.room_id[0] ^= 1;
                if d3.verify().is_ok() {
                    acc.violation("C06/one-signature-two-rows/edge-deletion/control/room", json!({}));
                    violated = true;
                }
            }
        }
        acc.evaluations += pairs as u64;

        // (b) + (c) on a real scenario
        let dir = ctx.case_dir(case);
        let sc = Scenario::new(&dir, ctx.case_seed(case), 2, true).await;
        let mut sc = match sc {
            Ok(s) => s,
            Err(e) => {
                acc.inconclusive(e);
                return;
            }
        };
        for _ in 0..12 {
            let t = sc.random_tick(&mut rng);
            sc.apply(&t).await;
            let op = sc.random_write(&mut rng, true);
            sc.apply(&op).await;
        }
        sc.apply(&Op::Pull { dst: 1, src: 0, cut: None }).await;
        sc.apply(&Op::Pull { dst: 0, src: 1, cut: None }).await;
        for (pi, p) in sc.peers.iter().enumerate() {
            let s = p.snapshot().await;
            for n in s.nodes.values() {
                acc.count("stored_rows_verified", 1);
                if n.verify().is_err() {
                    acc.violation(
                        format!("C06/stored-row-does-not-verify/node/entity-{}", n._entity),
                        json!({"peer": pi, "node": crate::snapshot::node_json(n)}),
                    );
                    violated = true;
                }
            }
            for e in s.edges.values() {
                acc.count("stored_rows_verified", 1);
                if e.verify().is_err() {
                    acc.violation("C06/stored-row-does-not-verify/edge", json!({"peer": pi, "edge": crate::snapshot::edge_json(e)}));
                    violated = true;
                }
            }
            for d in s.node_del.values() {
                acc.count("stored_rows_verified", 1);
                if d.to_entry().verify().is_err() {
                    acc.violation("C06/stored-row-does-not-verify/node-deletion", json!({"peer": pi}));
                    violated = true;
                }
            }
            for d in s.edge_del.values() {
                acc.count("stored_rows_verified", 1);
                if d.to_entry().verify().is_err() {
                    acc.violation("C06/stored-row-does-not-verify/edge-deletion", json!({"peer": pi}));
                    violated = true;
                }
            }
        }
        // (c) signing oracle: the identity challenge handler of peer 0, reached as any connected peer
        let victim = &sc.peers[0];
        let (a_tx, mut a_rx) = mpsc::channel::<Answer>(8);
        let mut handle = RemotePeerHandle {
            allowed_room: HashSet::new(),
            db: victim.db.clone(),
            verifying_key: victim.id.vkey.clone(),
            reply: a_tx,
        };
        let probes = ctx.tier.pick(20, 200);
        for i in 0..probes {
            let mut forged = rand_node(&mut rng);
            forged.room_id = Some(sc.room.id);
            forged._entity = "0".to_string();
            forged._json = Some(format!("{{\"32\":\"forged{}\"}}", i));
            forged._binary = None;
            forged.verifying_key = victim.id.vkey.clone();
            let digest = forged.hash().unwrap().as_bytes().to_vec();
            let q = QueryProtocol {
                id: i as u64,
                query: Query::ProveIdentity(digest),
            };
            let key = Arc::new(Mutex::new(Vec::new()));
            let ready = Arc::new(AtomicBool::new(true));
            let fp = discret::verif::security::HardwareFingerprint { id: [0; 16], name: "x".into() };
            let res = InboundQueryService::process_inbound(q, &mut handle, &key, &ready, &fp).await;
            acc.count("signing_requests", 1);
            if res.is_err() {
                continue;
            }
            if let Ok(ans) = a_rx.try_recv() {
                if ans.success {
                    if let Ok(ia) = bincode::deserialize::<IdentityAnswer>(&ans.serialized) {
                        forged._signature = ia.chall_signature.clone();
                        if forged.verify().is_ok() {
                            acc.violation(
                                "C06/signing-oracle/identity-challenge-answer-verifies-as-a-row",
                                json!({"forged_row": crate::snapshot::node_json(&forged), "note": "the 32 byte digest of a row crafted for the victim's key was sent as Query::ProveIdentity challenge before any authentication; the returned signature verifies as the row's signature"}),
                            );
                            violated = true;
                        } else {
                            acc.nontrivial(format!("oracle-probe-{}", i % 4));
                        }
                    }
                }
            }
        }
        if !violated {
            acc.held(None);
        }
        acc.sample(json!({"pairs": pairs, "signing_requests": probes}));
    })
}

/// digest, signature and key import code replayed by the Miri crate (/verif/miri): returns (rows signed and verified,
/// mutants refused, mutants accepted)
pub fn miri_replay(seed: u64, count: usize) -> (usize, usize, usize) {
    use rand::SeedableRng;
    let mut rng = StdRng::seed_from_u64(seed);
    let id = Identity::new(seed, 77);
    let (mut rows, mut refused, mut accepted) = (0, 0, 0);
    for _ in 0..count {
        let mut a = rand_node(&mut rng);
        if a.sign(&id.signing).is_err() || a.verify().is_err() {
            continue;
        }
        rows += 1;
        for (_, mut b) in node_candidates(&a, &mut rng) {
            b._signature = a._signature.clone();
            b.verifying_key = a.verifying_key.clone();
            if !node_differs(&a, &b) {
                continue;
            }
            if b.verify().is_ok() {
                accepted += 1;
            } else {
                refused += 1;
            }
        }
        // malformed keys and signatures
        for k in [vec![], vec![1u8], vec![9u8; 33], vec![1u8; 200]] {
            let mut b = a.clone();
            b.verifying_key = k;
            let _ = b.verify();
        }
        for sg in [vec![], vec![0u8; 63], vec![0u8; 65]] {
            let mut b = a.clone();
            b._signature = sg;
            let _ = b.verify();
        }
    }
    (rows, refused, accepted)
}
