//! C14 — No input crashes, wedges or confuses an instance.
//!
//! Every case runs in its own grandchild process (a death of the process is itself a violation and must
//! not hide the other cases). Inside, hostile inputs are fed to a real instance; after each input the
//! process-global panic counter, a liveness probe (parallelism + 1 concurrent queries) and the error
//! kind of requests that are valid by construction are checked.
use crate::peer::{key_material, small_config, Identity, Peer, APP_KEY};
use crate::runner::{Acc, CaseFut, Ctx, PropDef, Tier};
use crate::util::{b64, clock_real, panic_messages, panics};
use discret::verif::configuration::Configuration;
use crate::sync::{serve_batch, Batch};
use crate::world::open_room_spec;
use discret::verif::database::edge::{Edge, EdgeDeletionEntry};
use discret::verif::security::SigningKey;
use std::sync::Arc;
use discret::verif::database::node::{Node, NodeDeletionEntry, NodeToInsert};
use discret::verif::network::ConnectionInfo;
use discret::verif::peer_connection_service::PeerConnectionMessage;
use discret::verif::synchronisation::{Answer, IdentityAnswer, Query, QueryProtocol, RemoteEvent};
use discret::{Discret, Parameters, ParametersAdd};
use rand::rngs::StdRng;
use rand::{Rng, SeedableRng};
use serde_json::{json, Value};
use std::process::{Command, Stdio};
use std::time::Duration;
use tokio::sync::mpsc;

pub static DEF: PropDef = PropDef {
    id: "C14",
    level: "exploration",
    rule: "per case, in its own process: a real instance with a data model whose entity, field and alias names are storage-engine keywords, digit-first or non-ASCII identifiers; inputs: (a) requests valid by construction over that model (mutations, queries with filters / order / aliases, deletions), (b) character-level mutants of valid requests and model texts, (c) every parameter type x null for every field type, (d) rows, references and deletion records with empty, short, long or garbage keys and signatures given to the verification service and to the ingestion entry points, (e) JSON parameter documents, (f) invitation bytes, (g) malformed identity answers over the NewConnection seam. After every input: no new panic in any thread, the probe query answered parallelism+1 times concurrently, and for (a) no engine error. A death of the process is a violation. non-trivial = input class other than a plain valid request; distinct = (input kind, outcome class)",
    assumptions: &[
        "a call that exceeds its allowance (60 s, x40 under valgrind) is only counted; the instance is declared wedged when the probe (parallelism+1 concurrent queries) is not answered within 30 s (x40 under valgrind)",
        "wire frames of the QUIC endpoint are not driven by this check (see DESIGN.md)",
    ],
    cases: |t| t.pick(48, 1000),
    shards: |t| t.pick(12, 16),
    case_budget_s: |_| 1600,
    min_conclusive: |t| t.pick(16, 300),
    run_case,
    finish: None,
    worker_threads: 1,
    tokio_per_case: false,
};

const KEYWORDS: &[&str] = &["select", "from", "where", "group", "order", "index", "table", "values", "limit", "join", "by", "and", "null", "not", "primary", "key", "default", "unique", "check", "exists"];
const ODD: &[&str] = &["1abc", "42", "名前", "été", "_9x", "a_b", "Ünï", "x1"];

fn model_text(rng: &mut StdRng) -> (String, Vec<(String, Vec<(String, &'static str)>)>) {
    // returns the text and (entity, [(field, type)])
    let mut ents = Vec::new();
    let mut used = std::collections::HashSet::new();
    let mut text = String::from("{\n  Probe{ n:Integer nullable, s:String nullable, jd:Json default \"{}\", kid:Probe }\n");
    text.push_str(&format!("  Wide{{ {} }}\n", (0..70).map(|i| format!("c{}:Integer nullable", i)).collect::<Vec<_>>().join(", ")));
    for _ in 0..rng.gen_range(2..5) {
        let name = loop {
            let n = if rng.gen_bool(0.6) { KEYWORDS[rng.gen_range(0..KEYWORDS.len())] } else { ODD[rng.gen_range(0..ODD.len())] };
            if !n.starts_with('_') && used.insert(n.to_string()) {
                break n.to_string();
            }
        };
        let mut fields = Vec::new();
        let mut fused = std::collections::HashSet::new();
        for _ in 0..rng.gen_range(1..5) {
            let f = if rng.gen_bool(0.6) { KEYWORDS[rng.gen_range(0..KEYWORDS.len())] } else { ODD[rng.gen_range(0..ODD.len())] };
            if f.starts_with('_') || !fused.insert(f) {
                continue;
            }
            let ty = ["String", "Integer", "Float", "Boolean", "Base64", "Json"][rng.gen_range(0..6)];
            fields.push((f.to_string(), ty));
        }
        if fields.is_empty() {
            fields.push(("select".to_string(), "String"));
        }
        text.push_str(&format!("  {}{{ ", name));
        for (f, ty) in &fields {
            text.push_str(&format!("{}:{} nullable, ", f, ty));
        }
        // a reference and a list of references to itself, named like keywords too
        let rname = ["join", "r1", "having", "左"][rng.gen_range(0..4)];
        let lname = ["union", "l1", "into", "右"][rng.gen_range(0..4)];
        if !fused.contains(rname) && !fused.contains(lname) {
            text.push_str(&format!("{}:{}, {}:[{}], ", rname, name, lname, name));
            fields.push((rname.to_string(), "Ref"));
            fields.push((lname.to_string(), "Arr"));
        }
        text.push_str("}\n");
        ents.push((name, fields));
    }
    text.push('}');
    (text, ents)
}

fn scalar<'a>(fields: &'a [(String, &'static str)], rng: &mut StdRng) -> &'a (String, &'static str) {
    let sc: Vec<&(String, &'static str)> = fields.iter().filter(|f| f.1 != "Ref" && f.1 != "Arr").collect();
    sc[rng.gen_range(0..sc.len())]
}

fn value_for(ty: &str, rng: &mut StdRng) -> (Value, bool) {
    match ty {
        "String" => (json!(["x", "select", "'", "\""][rng.gen_range(0..4)]), true),
        "Integer" => (json!(rng.gen_range(-5..5)), true),
        "Float" => (json!(1.5), true),
        "Boolean" => (json!(true), true),
        "Base64" => (json!("AQID"), true),
        _ => (json!("{\"a\":1}"), true),
    }
}

fn add_param(p: &mut Parameters, name: &str, v: &Value) {
    match v {
        Value::String(s) => p.add(name, s.clone()).unwrap(),
        Value::Bool(b) => p.add(name, *b).unwrap(),
        Value::Number(n) if n.is_i64() => p.add(name, n.as_i64().unwrap()).unwrap(),
        Value::Number(n) => p.add(name, n.as_f64().unwrap()).unwrap(),
        _ => p.add_null(name).unwrap(),
    }
}

fn mutate_text(s: &str, rng: &mut StdRng) -> String {
    let mut chars: Vec<char> = s.chars().collect();
    for _ in 0..rng.gen_range(1..4) {
        if chars.is_empty() {
            break;
        }
        let i = rng.gen_range(0..chars.len());
        match rng.gen_range(0..5) {
            0 => {
                chars.remove(i);
            }
            1 => {
                let pool: Vec<char> = "{}()[]\"$:,\\'.-0é\u{0}\n".chars().collect();
                chars.insert(i, pool[rng.gen_range(0..pool.len())]);
            }
            2 => {
                let j = (i + rng.gen_range(1..8)).min(chars.len());
                let dup: Vec<char> = chars[i..j].to_vec();
                for (k, c) in dup.into_iter().enumerate() {
                    chars.insert(i + k, c);
                }
            }
            3 => chars.truncate(i),
            _ => {
                let j = rng.gen_range(0..chars.len());
                chars.swap(i, j);
            }
        }
    }
    chars.into_iter().collect()
}

/// wall clock allowances are multiplied by DV_TIME_SCALE (set by the parent for sessions under valgrind)
fn scaled(ms: u64) -> Duration {
    let k: u64 = std::env::var("DV_TIME_SCALE").ok().and_then(|v| v.parse().ok()).unwrap_or(1);
    Duration::from_millis(ms * k)
}

fn panic_site(msg: &str) -> String {
    // "thread '...' panicked: panicked at src/security.rs:80:8:\n..."
    if let Some(p) = msg.find("panicked at ") {
        let rest = &msg[p + 12..];
        let path = rest.split(':').next().unwrap_or("");
        return path.rsplit('/').next().unwrap_or(path).to_string();
    }
    "unknown".to_string()
}

async fn probe(peer: &Peer, n: usize) -> bool {
    let futs = (0..n).map(|_| async { tokio::time::timeout(scaled(30_000), peer.query("query { Probe{ n } }", None)).await });
    let res = futures::future::join_all(futs).await;
    res.iter().all(|r| matches!(r, Ok(Ok(_))))
}

fn is_engine_error(e: &str) -> bool {
    // rusqlite errors surface with the engine's wording
    e.contains("syntax error") || e.contains("parser stack overflow") || e.contains("no such column") || e.contains("no such table") || e.contains("SQL logic") || e.contains("ambiguous column") || e.contains("malformed") || e.contains("unrecognized token") || e.contains("near \"")
}

pub fn child_main(args: &[String]) {
    // args: tier seed case workdir
    let tier = if args.first().map(|s| s.as_str()) == Some("thorough") { Tier::Thorough } else { Tier::Quick };
    let seed: u64 = args[1].parse().unwrap();
    let case: u64 = args[2].parse().unwrap();
    let dir = std::path::PathBuf::from(&args[3]);
    crate::util::install_panic_counter();
    let rt = tokio::runtime::Builder::new_multi_thread().worker_threads(4).enable_all().build().unwrap();
    let acc = rt.block_on(session(tier, seed, case, dir));
    println!("RESULT {}", serde_json::to_string(&acc).unwrap());
    use std::io::Write;
    let _ = std::io::stdout().flush();
    // library threads are still running: leave without running the exit handlers of the C libraries under them
    unsafe { libc::_exit(0) }
}

async fn session(tier: Tier, seed: u64, case: u64, dir: std::path::PathBuf) -> Acc {
    clock_real();
    let mut acc = Acc::default();
    let mut rng = StdRng::seed_from_u64(seed);
    let (model, ents) = model_text(&mut rng);
    let peer = match Peer::start("p", seed, 0, "{ Probe{ n:Integer nullable, s:String nullable } }", &dir.join("p"), small_config()).await {
        Ok(p) => p,
        Err(e) => {
            acc.inconclusive(e);
            return acc;
        }
    };
    let parallelism = 2;
    let mut history: Vec<Value> = Vec::new();
    macro_rules! after_input {
        ($kind:expr, $desc:expr, $panics_before:expr) => {{
            let newp = panics() - $panics_before;
            acc.count(&format!("input/{}", format!("{}", $kind).split('/').next().unwrap_or("")), 1);
            acc.distinct("input_kinds", format!("{}", $kind));
            if newp > 0 {
                let msgs = panic_messages();
                let last = msgs.last().cloned().unwrap_or_default();
                acc.violation(
                    format!("C14/panic/{}/{}", format!("{}", $kind).split('/').next().unwrap_or(""), panic_site(&last)),
                    json!({"input": $desc, "panic": last.chars().take(300).collect::<String>(), "history": history.iter().rev().take(6).collect::<Vec<_>>()}),
                );
            }
            if !probe(&peer, parallelism + 1).await {
                acc.violation(
                    format!("C14/instance-does-not-answer-the-next-request-after/{}", format!("{}", $kind).split('/').next().unwrap_or("")),
                    json!({"input": $desc, "panics": panic_messages().iter().rev().take(2).collect::<Vec<_>>(), "history": history.iter().rev().take(6).collect::<Vec<_>>()}),
                );
                // the instance is wedged: nothing more can be learned from this session
                return acc;
            }
        }};
    }

    // the model with odd identifiers is itself an input valid by construction
    {
        let pb = panics();
        let r = peer.db.update_data_model(&model).await;
        let accepted = r.as_ref().map(|m| m.contains("select") || m.contains(&ents[0].0)).unwrap_or(false);
        history.push(json!({"kind": "model", "text": model, "accepted": accepted}));
        after_input!("valid-model-with-odd-identifiers", json!(model), pb);
        if !accepted {
            acc.count("odd_model_refused", 1);
        }
    }
    let n_inputs = tier.pick(60, 120);
    for _ in 0..n_inputs {
        let kind = rng.gen_range(0..100);
        let pb = panics();
        eprintln!("INPUT {}", ["valid-request", "mutated-request", "parameter", "malformed-row", "parameter-document", "wrong-or-missing-parameter"][if kind < 30 { 0 } else if kind < 50 { 1 } else if kind < 65 { 2 } else if kind < 80 { 3 } else if kind < 90 { 4 } else { 5 }]);
        if kind < 30 {
            // (a) valid request over the odd model
            let (ename, fields) = &ents[rng.gen_range(0..ents.len())];
            let (fname, fty) = scalar(fields, &mut rng);
            let (val, _) = value_for(fty, &mut rng);
            let alias = KEYWORDS[rng.gen_range(0..KEYWORDS.len())];
            let nested: Vec<&(String, &'static str)> = fields.iter().filter(|f| f.1 == "Ref" || f.1 == "Arr").collect();
            let which = if nested.is_empty() { rng.gen_range(0..4) } else { rng.gen_range(0..6) };
            let mut nest_depth = 0;
            let mut p = Parameters::new();
            let text = match which {
                0 => {
                    add_param(&mut p, "v", &val);
                    format!("mutate {{ {}{{ {}:$v }} }}", ename, fname)
                }
                1 => {
                    if *fty != "Json" {
                        add_param(&mut p, "v", &val);
                        format!("query {{ {}({} = $v){{ {} }} }}", ename, fname, fname)
                    } else {
                        format!("query {{ {}{{ {} }} }}", ename, fname)
                    }
                }
                2 => {
                    if fields.iter().any(|f| f.0 == alias) || ents.iter().any(|e| e.0 == alias) {
                        format!("query {{ {}{{ {} }} }}", ename, fname)
                    } else if *fty == "Json" {
                        format!("query {{ {}: {}{{ {} }} }}", alias, ename, fname)
                    } else {
                        format!("query {{ {}: {}(order_by({} desc), first 3){{ {}: {} }} }}", alias, ename, fname, alias, fname)
                    }
                }
                4 => {
                    // nested query, valid for the model, 1..=10 levels
                    let f = nested[rng.gen_range(0..nested.len())];
                    nest_depth = if rng.gen_bool(0.03) { rng.gen_range(5..=10) } else { rng.gen_range(1..=4) };
                    format!("query {{ {}{{ {} {} {} }} }}", ename, format!("{}{{ ", f.0).repeat(nest_depth), fname, "} ".repeat(nest_depth))
                }
                5 => {
                    // nested mutation
                    let f = nested[rng.gen_range(0..nested.len())];
                    nest_depth = rng.gen_range(1..=40);
                    let (o, c) = if f.1 == "Arr" { ("[{ ", "}] ") } else { ("{ ", "} ") };
                    add_param(&mut p, "v", &val);
                    format!("mutate {{ {}{{ {} {}:$v {} }} }}", ename, format!("{}:{}", f.0, o).repeat(nest_depth), fname, c.repeat(nest_depth))
                }
                _ => {
                    add_param(&mut p, "id", &json!(b64(&[7u8; 16])));
                    format!("delete {{ {}{{ $id }} }}", ename)
                }
            };
            eprintln!("INPUT valid-request/{}", text.chars().take(300).collect::<String>());
            let res: Result<String, String> = match which {
                0 | 5 => peer.mutate(&text, Some(p)).await,
                3 => peer.delete(&text, Some(p)).await.map(|_| String::new()),
                _ => peer.query(&text, Some(p)).await,
            };
            history.push(json!({"kind": "valid-request", "text": text, "result": match &res { Ok(_) => "ok".to_string(), Err(e) => e.chars().take(100).collect() }}));
            if let Err(e) = &res {
                if is_engine_error(e) {
                    let class = if KEYWORDS.contains(&ename.as_str()) || text.contains(&format!("{}:", alias)) { "keyword-identifier" } else if ename.chars().next().map(|c| c.is_ascii_digit()).unwrap_or(false) { "digit-first-identifier" } else { "other-identifier" };
                    let class = if e.contains("parser stack overflow") { "statement-nesting-exceeds-the-engine-parser-stack".to_string() } else { class.to_string() };
                    let _ = nest_depth;
                    acc.violation(
                        format!("C14/valid-request-rejected-by-the-engine/{}/{}", ["mutation", "query-filter", "query-alias", "deletion", "nested-query", "nested-mutation"][which], class),
                        json!({"request": text, "error": e.chars().take(300).collect::<String>(), "model": model}),
                    );
                }
            }
            after_input!("valid-request", json!(text), pb);
        } else if kind < 50 {
            // (b) mutants
            let (ename, fields) = &ents[rng.gen_range(0..ents.len())];
            let base = match rng.gen_range(0..4) {
                0 => format!("mutate {{ {}{{ {}:\"x\" }} }}", ename, fields[0].0),
                1 => format!("query {{ {}(order_by({} asc), first 2){{ {} }} }}", ename, fields[0].0, fields[0].0),
                2 => "delete { Probe{ $id } }".to_string(),
                _ => model.clone(),
            };
            let text = mutate_text(&base, &mut rng);
            let t2 = text.clone();
            let which = if base.starts_with("mutate") { 0 } else if base.starts_with("query") { 1 } else if base.starts_with("delete") { 2 } else { 3 };
            let r = tokio::time::timeout(scaled(60_000), async {
                match which {
                    0 => peer.mutate(&t2, None).await.is_ok(),
                    1 => peer.query(&t2, None).await.is_ok(),
                    2 => peer.delete(&t2, None).await.is_ok(),
                    _ => {
                        let scratch = format!("{{ Probe{{ n:Integer nullable }} }}\n{}", "");
                        let _ = scratch;
                        // a mutated model is tried on a clone of the running model only
                        discret::verif::database::query_language::data_model_parser::DataModel::new().update(&t2).is_ok()
                    }
                }
            })
            .await;
            history.push(json!({"kind": "mutant", "text": text.chars().take(160).collect::<String>(), "returned": r.is_ok()}));
            after_input!("mutated-request", json!(text.chars().take(200).collect::<String>()), pb);
        } else if kind < 65 {
            // (c) parameter type x null per field type
            let (ename, fields) = &ents[rng.gen_range(0..ents.len())];
            let (fname, fty) = scalar(fields, &mut rng);
            let vals = [Value::Null, json!(true), json!(3), json!(2.5), json!("text"), json!("AQID"), json!("{\"a\":[1]}"), json!("not json {"), json!(""), json!(i64::MAX)];
            let v = vals[rng.gen_range(0..vals.len())].clone();
            let mut p = Parameters::new();
            add_param(&mut p, "v", &v);
            let text = format!("mutate {{ {}{{ {}:$v }} }}", ename, fname);
            let r = peer.mutate(&text, Some(p)).await;
            history.push(json!({"kind": "parameter", "field_type": fty, "value": v, "ok": r.is_ok()}));
            after_input!(format!("parameter-{}-for-{}-field", match &v { Value::Null => "null", Value::Bool(_) => "boolean", Value::Number(n) if n.is_i64() => "integer", Value::Number(_) => "float", _ => "string" }, fty), json!({"text": text, "value": v}), pb);
        } else if kind < 80 {
            // (d) rows with malformed keys and signatures through the verification service and ingestion
            let id = Identity::new(seed, 5);
            let mut n = Node { id: [1; 16], room_id: Some([2; 16]), cdate: 1, mdate: 1, _entity: "0".into(), _json: Some("{}".into()), _binary: None, verifying_key: vec![], _signature: vec![], _local_id: None };
            let _ = n.sign(&id.signing);
            let key_variant = rng.gen_range(0..6);
            match key_variant {
                0 => n.verifying_key = vec![],
                1 => n.verifying_key = vec![1],
                2 => n.verifying_key = vec![9; 33],
                3 => n._signature = vec![],
                4 => n._signature = vec![0; 63],
                _ => n.verifying_key = vec![1; 200],
            }
            let what = ["empty-key", "one-byte-key", "wrong-key-type", "empty-signature", "short-signature", "long-key"][key_variant];
            let verify = peer.verify.clone();
            let db = peer.db.clone();
            let target = rng.gen_range(0..5);
            let n2 = n.clone();
            let h = tokio::spawn(async move {
                match target {
                    0 => verify.verify_nodes(vec![n2]).await.is_ok(),
                    1 => {
                        let e = Edge { src: [1; 16], src_entity: "0".into(), label: "33".into(), dest: [3; 16], cdate: 1, verifying_key: n2.verifying_key.clone(), signature: n2._signature.clone() };
                        verify.verify_edges(vec![e]).await.is_ok()
                    }
                    2 => {
                        let d = NodeDeletionEntry { room_id: [2; 16], id: [1; 16], entity: "0".into(), mdate: 1, deletion_date: 2, verifying_key: n2.verifying_key.clone(), signature: n2._signature.clone(), entity_name: None, enable_full_text: false };
                        verify.verify_node_log(vec![d]).await.is_ok()
                    }
                    3 => {
                        let d = EdgeDeletionEntry { room_id: [2; 16], src: [1; 16], src_entity: "0".into(), dest: [3; 16], label: "33".into(), cdate: 1, deletion_date: 2, verifying_key: n2.verifying_key.clone(), signature: n2._signature.clone(), entity_name: None };
                        verify.verify_edge_log(vec![d]).await.is_ok()
                    }
                    _ => {
                        let nti = NodeToInsert { id: n2.id, node: Some(n2), ..Default::default() };
                        db.add_nodes([2; 16], vec![nti]).await.is_ok()
                    }
                }
            });
            let r = tokio::time::timeout(scaled(60_000), h).await;
            let outcome = match &r {
                Ok(Ok(b)) => format!("returned {}", b),
                Ok(Err(e)) => format!("task panicked: {}", e),
                Err(_) => "no answer within 10 s".to_string(),
            };
            let tname = ["verify_nodes", "verify_edges", "verify_node_log", "verify_edge_log", "add_nodes"][target];
            history.push(json!({"kind": "malformed-row", "variant": what, "entry_point": tname, "outcome": outcome}));
            if r.is_err() {
                // slow or stuck: the probe that follows decides (a healthy probe => counted, not a violation)
                acc.count(&format!("call_exceeded_its_allowance/{}", tname), 1);
            }
            after_input!(format!("row-with-{}-to-{}", what, tname), json!({"variant": what, "entry_point": tname}), pb);
        } else if kind < 90 {
            // (e) parameter documents
            let docs = ["", "{", "[]", "null", "{\"a\":{}}", "{\"a\":[1]}", "{\"a\":1e400}", "{\"a\":18446744073709551615}", "{\"a\":-9223372036854775809}", "{\"a\":\"\\ud800\"}", "{\"a\":1,\"a\":2}", "{\"\":null}", "123"];
            let d = docs[rng.gen_range(0..docs.len())];
            let r = std::panic::catch_unwind(|| Parameters::from_json(d).is_ok());
            history.push(json!({"kind": "parameter-document", "doc": d, "outcome": format!("{:?}", r.as_ref().map_err(|_| "panic"))}));
            after_input!("parameter-document", json!(d), pb);
        } else {
            // (b') mutated parameter-bearing query with parameters missing / of the wrong type
            let mut p = Parameters::new();
            if rng.gen_bool(0.5) {
                add_param(&mut p, "id", &json!("not base64 !!"));
            }
            let text = ["query { Probe(n = $id){ n } }", "delete { Probe{ $id } }", "mutate { Probe{ id:$id n:1 } }", "query { Probe(id = $id, order_by(n asc), after($id)){ n } }"][rng.gen_range(0..4)];
            let r = if text.starts_with("query") { peer.query(text, Some(p)).await.is_ok() } else if text.starts_with("delete") { peer.delete(text, Some(p)).await.is_ok() } else { peer.mutate(text, Some(p)).await.is_ok() };
            history.push(json!({"kind": "wrong-or-missing-parameter", "text": text, "ok": r}));
            after_input!("wrong-or-missing-parameter", json!(text), pb);
        }
    }
    // (h) a serving peer that is a member of the room: correctly signed rows with hostile content, and
    //     mangled answers, through the library's own synchronise_room
    {
        let attacker = Identity::new(seed, 7);
        let mut ent_names: Vec<&str> = vec!["Probe"];
        for e in &ents {
            ent_names.push(&e.0);
        }
        let spec = open_room_spec(&[peer.id.vkey.clone(), attacker.vkey.clone()], &ent_names, true);
        match peer.create_room(&spec).await {
            Ok(room) => {
                let now = discret::verif::date_utils::now();
                for round in 0..tier.pick(6, 14) {
                    let pb = panics();
                    let mut batch = Batch::default();
                    let mut kinds: Vec<String> = Vec::new();
                    let mangled = round % 3 == 2;
                    for _ in 0..rng.gen_range(1..5) {
                        let mut id = [0u8; 16];
                        rng.fill(&mut id);
                        let mut n = Node { id, room_id: Some(room.id), cdate: now, mdate: now, _entity: "0".into(), _json: Some("{\"32\":1}".into()), _binary: None, verifying_key: attacker.vkey.clone(), _signature: vec![], _local_id: None };
                        let v = rng.gen_range(0..16);
                        let what = match v {
                            0 => { n._json = Some("not json".into()); "json-not-json" }
                            1 => { n._json = Some("[1]".into()); "json-array" }
                            2 => { n._json = Some(format!("{{\"32\":{}1{}}}", "[".repeat(100), "]".repeat(100))); "json-deep-value" }
                            3 => { n._json = Some(format!("{{\"32\":\"{}\"}}", "x".repeat(300 * 1024))); "json-over-size-limit" }
                            4 => { n._json = Some("{\"32\":\"a\\u0000b\"}".into()); "json-nul-character" }
                            5 => { n._json = None; "no-json" }
                            6 => { n._entity = "9999".into(); "unknown-entity" }
                            7 => { n._entity = "x".repeat(5000); "long-entity" }
                            8 => { n._binary = Some(vec![7; 300 * 1024]); "large-binary" }
                            9 => { n.mdate = i64::MAX; "mdate-max" }
                            10 => { n.mdate = i64::MIN; n.cdate = i64::MIN; "dates-min" }
                            11 => { n.cdate = now + 10; "cdate-after-mdate" }
                            12 => { n.id = [0; 16]; "zero-id" }
                            13 => { n._json = Some("{\"32\":\"text-for-integer\",\"99\":{}}".into()); "wrong-field-types" }
                            14 => { n._entity = "0'; DROP TABLE _node; --".into(); "entity-with-quote" }
                            _ => { n.mdate = -1; n.cdate = -5; "negative-dates" }
                        };
                        if let Ok(h) = n.hash() {
                            n._signature = attacker.signing.sign(h.as_bytes());
                        }
                        kinds.push(what.to_string());
                        // a reference from this row
                        if rng.gen_bool(0.4) {
                            let ev = rng.gen_range(0..5);
                            let mut e = Edge { src: n.id, src_entity: n._entity.clone(), label: "33".into(), dest: [3; 16], cdate: now, verifying_key: attacker.vkey.clone(), signature: vec![] };
                            let ewhat = match ev {
                                0 => { e.label = String::new(); "edge-empty-label" }
                                1 => { e.label = "l".repeat(5000); "edge-long-label" }
                                2 => { e.dest = e.src; "edge-to-itself" }
                                3 => { e.cdate = i64::MIN; "edge-date-min" }
                                _ => { e.src_entity = "nope".into(); "edge-unknown-entity" }
                            };
                            let _ = e.sign(&attacker.signing);
                            kinds.push(ewhat.to_string());
                            batch.edges.push(e);
                        }
                        if rng.gen_bool(0.3) {
                            let dd = [now, i64::MAX, i64::MIN, 0][rng.gen_range(0..4)];
                            let sig = NodeDeletionEntry::sign(&room.id, &n, dd, &attacker.vkey, &attacker.signing);
                            batch.node_dels.push(NodeDeletionEntry { room_id: room.id, id: n.id, entity: n._entity.clone(), mdate: n.mdate, deletion_date: dd, verifying_key: attacker.vkey.clone(), signature: sig, entity_name: None, enable_full_text: false });
                            kinds.push(format!("deletion-date-{}", if dd == now { "now" } else if dd == 0 { "zero" } else if dd > 0 { "max" } else { "min" }));
                        }
                        batch.nodes.push(n);
                    }
                    let mseed: u64 = rng.gen();
                    let mangle: Option<Arc<dyn Fn(&str, &mut Answer) + Send + Sync>> = if mangled {
                        let target = ["RoomDefinition", "RoomNode", "RoomLog", "RoomDailyNodes", "Nodes", "Edges", "NodeDeletionLog", "EdgeDeletionLog", "RoomLogAt"][(mseed % 9) as usize];
                        let how = (mseed / 9) % 5;
                        kinds.push(format!("answer-to-{}-{}", target, ["garbage", "truncated", "huge-length-prefix", "empty", "failure-with-garbage"][how as usize]));
                        Some(Arc::new(move |kind: &str, a: &mut Answer| {
                            if kind == target && !a.serialized.is_empty() {
                                match how {
                                    0 => a.serialized = (0..a.serialized.len().max(9)).map(|i| (i as u64 * 2654435761 ^ mseed) as u8).collect(),
                                    1 => a.serialized.truncate(a.serialized.len() / 2),
                                    2 => {
                                        let mut v = u64::MAX.to_le_bytes().to_vec();
                                        v.extend_from_slice(&a.serialized);
                                        a.serialized = v;
                                    }
                                    3 => a.serialized.clear(),
                                    _ => {
                                        a.success = false;
                                        a.serialized = vec![0xff; 40];
                                    }
                                }
                            }
                        }))
                    } else {
                        None
                    };
                    eprintln!("INPUT hostile-serving-peer/{}", kinds.join("+"));
                    let r = tokio::time::timeout(scaled(60_000), serve_batch(&peer, room.id, &batch, &mut rng, mangle)).await;
                    let outcome = match &r {
                        Ok(Ok(st)) => match &st.error { Some(e) => format!("pull error: {}", e.chars().take(80).collect::<String>()), None => "pull ok".to_string() },
                        Ok(Err(e)) => format!("not served: {}", e),
                        Err(_) => "pull did not end within 30 s".to_string(),
                    };
                    history.push(json!({"kind": "hostile-serving-peer", "rows": kinds, "outcome": outcome}));
                    for k in &kinds {
                        acc.distinct("served", format!("{} -> {}", k, outcome.split(':').next().unwrap_or("")));
                    }
                    kinds.sort();
                    kinds.dedup();
                    after_input!(format!("hostile-serving-peer/{}", kinds.join("+")), json!({"rows": kinds, "outcome": outcome}), pb);
                }
                // (k) a connected peer that sends hostile queries to the library's own serving code
                {
                    use discret::verif::security::HardwareFingerprint;
                    use discret::verif::synchronisation::peer_outbound_service::{InboundQueryService, RemotePeerHandle};
                    let (q_tx, q_rx) = mpsc::channel::<QueryProtocol>(16);
                    let (a_tx, mut a_rx) = mpsc::channel::<Answer>(64);
                    let (fake_ps, _log) = crate::sync::fake_peer_service();
                    let mut allowed = std::collections::HashSet::new();
                    allowed.insert(room.id);
                    let handle = RemotePeerHandle { allowed_room: allowed, db: peer.db.clone(), verifying_key: peer.id.vkey.clone(), reply: a_tx };
                    let inbound = InboundQueryService::start(
                        HardwareFingerprint { id: [1; 16], name: "dv".to_string() },
                        [7; 32],
                        [9; 16],
                        handle,
                        q_rx,
                        fake_ps.clone(),
                        Arc::new(tokio::sync::Mutex::new(attacker.vkey.clone())),
                        Arc::new(std::sync::atomic::AtomicBool::new(true)),
                    );
                    let mut qid = 0u64;
                    for _ in 0..tier.pick(10, 24) {
                        let pb = panics();
                        let r = if rng.gen_bool(0.7) { room.id } else { [0x33; 16] };
                        let date = [0i64, now, i64::MAX, i64::MIN, -1, i64::MAX - 1][rng.gen_range(0..6)];
                        let entity = ["0", "", "9999", "0' OR '1'='1", "\u{0}"][rng.gen_range(0..5)].to_string();
                        let long_entity = "e".repeat(100_000);
                        let v = rng.gen_range(0..13);
                        let (what, query) = match v {
                            0 => ("RoomDefinition", Query::RoomDefinition(r)),
                            1 => ("RoomNode", Query::RoomNode(r)),
                            2 => ("RoomLog", Query::RoomLog(r)),
                            3 => ("RoomLogAt", Query::RoomLogAt(r, date)),
                            4 => ("EdgeDeletionLog", Query::EdgeDeletionLog(r, entity.clone(), date)),
                            5 => ("NodeDeletionLog", Query::NodeDeletionLog(r, entity.clone(), date)),
                            6 => ("RoomDailyNodes", Query::RoomDailyNodes(r, entity.clone(), date)),
                            7 => ("Nodes-many-ids", Query::Nodes(r, (0..50_000u32).map(|i| { let mut u = [0u8; 16]; u[..4].copy_from_slice(&i.to_le_bytes()); u }).collect())),
                            8 => ("Edges-extreme-dates", Query::Edges(r, vec![([1; 16], date), ([1; 16], i64::MIN)])),
                            9 => ("PeersForRoom", Query::PeersForRoom(r)),
                            10 => ("RoomDailyNodes-long-entity", Query::RoomDailyNodes(r, long_entity, date)),
                            11 => ("HardwareFingerprint", Query::HardwareFingerprint()),
                            _ => ("RoomList", Query::RoomList),
                        };
                        qid += 1;
                        eprintln!("INPUT hostile-query/{}", what);
                        let sent = q_tx.send(QueryProtocol { id: qid, query }).await.is_ok();
                        let mut answers = 0;
                        let mut completed = false;
                        while let Ok(Some(a)) = tokio::time::timeout(scaled(if answers == 0 { 3000 } else { 300 }), a_rx.recv()).await {
                            answers += 1;
                            if a.id == qid && (a.complete || !a.success) {
                                completed = true;
                                break;
                            }
                        }
                        let outcome = if !sent { "connection closed by the instance" } else if completed { "answered" } else if answers > 0 { "partial answer" } else { "no answer" };
                        history.push(json!({"kind": "hostile-query", "query": what, "date": date, "entity": entity.chars().take(20).collect::<String>(), "outcome": outcome}));
                        acc.distinct("hostile_query", format!("{} -> {}", what, outcome));
                        after_input!(format!("hostile-query/{}", what), json!({"query": what, "date": date, "entity": entity.chars().take(20).collect::<String>(), "outcome": outcome}), pb);
                        if !sent {
                            break;
                        }
                    }
                    drop(inbound);
                }
            }
            Err(e) => acc.count(&format!("room_not_created/{}", e.chars().take(40).collect::<String>()), 1),
        }
    }
    // (i) extreme requests
    for _ in 0..tier.pick(4, 10) {
        let pb = panics();
        let v = rng.gen_range(0..27);
        // requests of this family that are valid for the language and the model: any error is a finding
        let must_succeed = matches!(v, 15 | 16 | 18 | 19 | 22 | 23 | 24 | 25 | 26);
        let (what, text): (&str, String) = match v {
            15 => ("literal-ending-with-an-escaped-backslash", "mutate { Probe{ s:\"C:\\\\\" } }".to_string()),
            16 => ("braces-in-a-literal-after-a-literal-ending-with-an-escaped-backslash", format!("query {{ Probe(s = \"C:\\\\\", s != \"{}\"){{ n }} }}", "{".repeat(20))),
            17 => ("deep-nesting-after-a-literal-ending-with-an-escaped-backslash", format!("mutate {{ Probe{{ s:\"C:\\\\\" {} n:1 {} }} }}", "a:{ ".repeat(20000), "} ".repeat(20000))),
            20 => ("deep-nesting-after-a-literal-with-an-escaped-quote", format!("mutate {{ Probe{{ s:\"5\\\" nail\" {} n:1 {} }} }}", "a:{ ".repeat(20000), "} ".repeat(20000))),
            21 => ("deep-nesting-after-a-comment-with-a-quote", format!("mutate {{ // a comment with a \" in it\n Probe{{ {} n:1 {} }} }}", "a:{ ".repeat(20000), "} ".repeat(20000))),
            22 => ("braces-in-a-comment", format!("query {{ // {}\n Probe{{ n }} }}", "{".repeat(40))),
            23 => ("braces-in-a-literal-after-a-literal-with-an-escaped-quote", format!("query {{ Probe(s = \"5\\\" nail\", s != \"{}\"){{ n }} }}", "{".repeat(20))),
            24 => ("json-selector-on-a-json-field-with-a-default", "query { Probe{ v: jd->$.a } }".to_string()),
            25 => ("filter-on-a-system-date-inside-a-nested-entity", "query { Probe(nullable(kid)){ n kid(cdate > 0){ n } } }".to_string()),
            26 => ("filter-on-the-author-key-inside-a-nested-entity", "query { Probe(nullable(kid)){ n kid(verifying_key != \"AAAA\"){ n } } }".to_string()),
            18 => ("selection-of-40-fields", format!("query {{ Wide{{ {} }} }}", (0..40).map(|i| format!("c{}", i)).collect::<Vec<_>>().join(" "))),
            19 => ("selection-of-70-fields", format!("query {{ Wide{{ {} }} }}", (0..70).map(|i| format!("c{}", i)).collect::<Vec<_>>().join(" "))),
            0 => ("deeply-nested-braces", format!("query {{ Probe{} n {} }}", "{".repeat(20000), "}".repeat(20000))),
            1 => ("deeply-nested-filter-json", format!("mutate {{ Probe{{ n: {}1{} }} }}", "[".repeat(20000), "]".repeat(20000))),
            2 => ("integer-literal-overflow", "mutate { Probe{ n: 99999999999999999999999999 } }".to_string()),
            3 => ("float-literal-overflow", "query { Probe(n = 1e999){ n } }".to_string()),
            4 => ("first-overflow", "query { Probe(first 99999999999999999999){ n } }".to_string()),
            5 => ("skip-negative", "query { Probe(skip -1){ n } }".to_string()),
            6 => ("one-megabyte-string", format!("mutate {{ Probe{{ n: \"{}\" }} }}", "x".repeat(1 << 20))),
            7 => ("many-fields", format!("query {{ Probe{{ {} }} }}", (0..5000).map(|i| format!("a{}: n", i)).collect::<Vec<_>>().join(" "))),
            8 => ("many-entities", format!("query {{ {} }}", (0..2000).map(|i| format!("e{}: Probe{{ n }}", i)).collect::<Vec<_>>().join(" "))),
            9 => ("nul-in-request", "query { Probe{ n\u{0} } }".to_string()),
            12 => ("deeply-nested-sub-entities", format!("query {{ Probe{{ {} n {} }} }}", "a{ ".repeat(20000), "} ".repeat(20000))),
            13 => ("deeply-nested-sub-mutations", format!("mutate {{ Probe{{ {} n:1 {} }} }}", "a:{ ".repeat(20000), "} ".repeat(20000))),
            14 => ("deeply-nested-model", format!("{{ {} }}", "ns{ ".repeat(20000))),
            10 => ("json-selector-deep", format!("query {{ Probe{{ n->$.{} }} }}", "a.".repeat(5000))),
            _ => ("many-filters", format!("query {{ Probe({}){{ n }} }}", (0..3000).map(|i| format!("n = {}", i)).collect::<Vec<_>>().join(", "))),
        };
        eprintln!("INPUT extreme-request/{}", what);
        let r = tokio::time::timeout(scaled(60_000), async {
            if text.starts_with("mutate") { peer.mutate(&text, None).await.map(|_| ()) } else if text.starts_with("query") { peer.query(&text, None).await.map(|_| ()) } else { peer.db.update_data_model(&text).await.map(|_| ()).map_err(|e| e.to_string()) }
        })
        .await;
        history.push(json!({"kind": "extreme-request", "what": what, "outcome": format!("{:?}", r.as_ref().map(|x| x.as_ref().map_err(|e| e.chars().take(80).collect::<String>())))}));
        if must_succeed {
            if let Ok(Err(e)) = &r {
                let class = if is_engine_error(e) || e.contains("too many arguments") { "rejected-by-the-engine" } else if e.contains("nested too deeply") { "refused-by-the-nesting-limit" } else { "refused" };
                acc.violation(format!("C14/valid-request-{}/{}", class, what), json!({"request": text.chars().take(300).collect::<String>(), "error": e.chars().take(300).collect::<String>()}));
            }
        }
        acc.distinct("extreme", format!("{} -> {:?}", what, r.as_ref().map(|x| x.is_ok())));
        if r.is_err() {
            acc.count(&format!("call_exceeded_its_allowance/extreme-request-{}", what), 1);
        }
        after_input!(format!("extreme-request/{}", what), json!(what), pb);
    }
    // (j) frame payloads: what the read loops of the endpoint hand to the decoder (the loops themselves need a
    //     QUIC connection and are not driven)
    for _ in 0..tier.pick(20, 60) {
        let pb = panics();
        let base: Vec<u8> = match rng.gen_range(0..4) {
            0 => bincode::serialize(&QueryProtocol { id: 1, query: Query::Nodes([1; 16], vec![[2; 16]; 3]) }).unwrap(),
            1 => bincode::serialize(&Answer { id: 1, success: true, complete: false, serialized: vec![1, 2, 3] }).unwrap(),
            2 => bincode::serialize(&RemoteEvent::RoomDefinitionChanged([3; 16])).unwrap(),
            _ => bincode::serialize(&ConnectionInfo { endpoint_id: [1; 16], remote_id: [2; 16], conn_id: [3; 16], meeting_token: [4; 7], peer_verifying_key: vec![5; 33] }).unwrap(),
        };
        let mut bytes = base.clone();
        let how = rng.gen_range(0..5);
        match how {
            0 => bytes.truncate(rng.gen_range(0..bytes.len())),
            1 => {
                let i = rng.gen_range(0..bytes.len());
                bytes[i] = rng.gen();
            }
            2 => {
                // a length prefix turned into a huge value
                let i = rng.gen_range(0..bytes.len().saturating_sub(8).max(1));
                for b in bytes.iter_mut().skip(i).take(8) {
                    *b = 0xff;
                }
            }
            3 => bytes = (0..rng.gen_range(0..200)).map(|_| rng.gen()).collect(),
            _ => bytes.extend((0..rng.gen_range(1..50)).map(|_| rng.gen::<u8>())),
        }
        let b2 = bytes.clone();
        let h = std::thread::spawn(move || {
            let a = bincode::deserialize::<QueryProtocol>(&b2).is_ok();
            let b = bincode::deserialize::<Answer>(&b2).is_ok();
            let c = bincode::deserialize::<RemoteEvent>(&b2).is_ok();
            let d = bincode::deserialize::<ConnectionInfo>(&b2).is_ok();
            let e = bincode::deserialize::<IdentityAnswer>(&b2).is_ok();
            let f = bincode::deserialize::<discret::verif::database::system_entities::Invite>(&b2).is_ok();
            (a, b, c, d, e, f)
        });
        let r = h.join();
        acc.distinct("frame_payload", format!("{} -> {:?}", ["truncated", "byte-changed", "huge-length", "random", "trailing-bytes"][how], r.as_ref().ok()));
        history.push(json!({"kind": "frame-payload", "how": how, "len": bytes.len()}));
        after_input!("frame-payload", json!({"how": how, "bytes": b64(&bytes)}), pb);
    }
    acc.sample(json!({"model": model, "inputs": history.len(), "last_inputs": history.iter().rev().take(4).collect::<Vec<_>>()}));
    // (f) + (g): full Discret for invitation bytes and malformed identity answers, one case in three
    if case % 3 == 0 {
        let cfg = Configuration { parallelism: 2, enable_multicast: false, enable_beacons: false, ..Default::default() };
        std::fs::create_dir_all(dir.join("d")).unwrap();
        if let Ok(d) = Discret::new("{ Probe{ n:Integer nullable } }", APP_KEY, &key_material(seed, 40), dir.join("d"), cfg).await {
            let invite = d.invite(None).await.unwrap_or_default();
            for variant in 0..6 {
                let pb = panics();
                let bytes: Vec<u8> = match variant {
                    0 => vec![],
                    1 => vec![0xff; 7],
                    2 => invite[..invite.len().min(5)].to_vec(),
                    3 => {
                        let mut b = invite.clone();
                        if !b.is_empty() {
                            let i = rng.gen_range(0..b.len());
                            b[i] ^= 0x80;
                        }
                        b
                    }
                    4 => {
                        // a length prefix announcing a huge string
                        let mut b = vec![0u8; 16];
                        b.extend_from_slice(&u64::MAX.to_le_bytes());
                        b
                    }
                    _ => (0..rng.gen_range(1..300)).map(|_| rng.gen()).collect(),
                };
                let _ = tokio::time::timeout(scaled(60_000), d.accept_invite(bytes.clone())).await;
                tokio::time::sleep(scaled(30)).await;
                let alive = tokio::time::timeout(scaled(30_000), d.query("query { Probe{ n } }", None)).await.map(|r| r.is_ok()).unwrap_or(false);
                acc.count("input/invitation-bytes", 1);
                let newp = panics() - pb;
                if newp > 0 {
                    let last = panic_messages().last().cloned().unwrap_or_default();
                    acc.violation(format!("C14/panic/invitation-bytes/{}", panic_site(&last)), json!({"variant": variant, "len": bytes.len(), "panic": last.chars().take(300).collect::<String>()}));
                }
                if !alive {
                    acc.violation("C14/instance-does-not-answer-the-next-request-after/invitation-bytes", json!({"variant": variant}));
                    break;
                }
            }
            // malformed identity answers
            for variant in 0..5 {
                let pb = panics();
                let inv = d.invite(None).await.unwrap_or_default();
                let invite: Result<discret::verif::database::system_entities::Invite, _> = bincode::deserialize(&inv);
                let Ok(invite) = invite else { continue };
                let token = discret::verif::security::MeetingSecret::derive_token("P", &invite.invite_id);
                let (d_answer_tx, _h_answer_rx) = mpsc::channel::<Answer>(8);
                let (h_answer_tx, d_answer_rx) = mpsc::channel::<Answer>(8);
                let (d_query_tx, mut h_query_rx) = mpsc::channel::<QueryProtocol>(8);
                let (_h_query_tx, d_query_rx) = mpsc::channel::<QueryProtocol>(8);
                let (d_event_tx, _h_event_rx) = mpsc::channel::<RemoteEvent>(8);
                let (_h_event_tx, d_event_rx) = mpsc::channel::<RemoteEvent>(8);
                let info = ConnectionInfo { endpoint_id: [1; 16], remote_id: [variant as u8 + 2; 16], conn_id: [variant as u8 + 9; 16], meeting_token: token, peer_verifying_key: vec![] };
                let _ = d.verif_peers().sender.send(PeerConnectionMessage::NewConnection(None, info, d_answer_tx, d_answer_rx, d_query_tx, d_query_rx, d_event_tx, d_event_rx)).await;
                if let Ok(Some(QueryProtocol { id, query: Query::ProveIdentity(ch) })) = tokio::time::timeout(scaled(3000), h_query_rx.recv()).await {
                    let who = Identity::new(seed, 60 + variant as u64);
                    let mut peer_node = discret::verif::database::system_entities::Peer::create([4; 16], b64(&[5u8; 32]));
                    let _ = peer_node.sign(&who.signing);
                    use discret::verif::security::SigningKey;
                    let mut sig = who.signing.sign(&ch);
                    let serialized = match variant {
                        0 => {
                            peer_node.verifying_key = vec![];
                            bincode::serialize(&IdentityAnswer { peer: peer_node, chall_signature: sig }).unwrap()
                        }
                        1 => {
                            sig.truncate(10);
                            bincode::serialize(&IdentityAnswer { peer: peer_node, chall_signature: sig }).unwrap()
                        }
                        2 => vec![1, 2, 3],
                        3 => {
                            peer_node._json = Some("not json".into());
                            bincode::serialize(&IdentityAnswer { peer: peer_node, chall_signature: sig }).unwrap()
                        }
                        _ => {
                            peer_node._json = Some("{\"32\":\"@@@\"}".into());
                            let _ = peer_node.sign(&who.signing);
                            bincode::serialize(&IdentityAnswer { peer: peer_node, chall_signature: sig }).unwrap()
                        }
                    };
                    let _ = h_answer_tx.send(Answer { id, success: true, complete: true, serialized }).await;
                }
                tokio::time::sleep(scaled(150)).await;
                acc.count("input/identity-answer", 1);
                let what = ["empty-key", "short-signature", "garbage-bytes", "peer-row-json-invalid", "peer-row-public-key-invalid"][variant];
                let newp = panics() - pb;
                if newp > 0 {
                    let last = panic_messages().last().cloned().unwrap_or_default();
                    acc.violation(format!("C14/panic/identity-answer-{}/{}", what, panic_site(&last)), json!({"panic": last.chars().take(300).collect::<String>()}));
                }
                let alive = tokio::time::timeout(scaled(30_000), d.query("query { Probe{ n } }", None)).await.map(|r| r.is_ok()).unwrap_or(false);
                if !alive {
                    acc.violation(format!("C14/instance-does-not-answer-the-next-request-after/identity-answer-{}", what), json!({}));
                    break;
                }
            }
        }
    }
    acc
}

fn run_case<'a>(ctx: &'a Ctx, case: u64, acc: &'a mut Acc) -> CaseFut<'a> {
    Box::pin(async move {
        let dir = ctx.case_dir(case);
        let exe = std::env::current_exe().unwrap();
        std::fs::create_dir_all(&dir).unwrap();
        // thorough tier: one session in fifty runs under valgrind memcheck: the C libraries under
        // the storage layer are where a hostile row could corrupt memory without any panic
        let memcheck = match ctx.tier {
            Tier::Quick => false,
            Tier::Thorough => case % 50 == 7,
        } && std::path::Path::new("/usr/bin/valgrind").exists();
        let mut cmd = if memcheck {
            let mut c = Command::new("/usr/bin/valgrind");
            c.arg("-q").arg("--error-exitcode=9").arg("--leak-check=no").arg(&exe);
            c
        } else {
            Command::new(&exe)
        };
        if memcheck {
            cmd.env("DV_TIME_SCALE", "40");
        }
        let out_path = dir.join("child.out");
        let err_path = dir.join("child.err");
        let out = cmd
            .arg("child")
            .arg("c14")
            .arg(ctx.tier.name())
            .arg(ctx.case_seed(case).to_string())
            .arg(case.to_string())
            .arg(&dir)
            .stdin(Stdio::null())
            .stdout(std::fs::File::create(&out_path).unwrap())
            .stderr(std::fs::File::create(&err_path).unwrap())
            .spawn();
        let mut child = match out {
            Ok(c) => c,
            Err(e) => {
                acc.inconclusive(format!("cannot spawn the case process: {}", e));
                return;
            }
        };
        // watchdog
        let start = std::time::Instant::now();
        let status = loop {
            match child.try_wait() {
                Ok(Some(s)) => break Some(s),
                Ok(None) => {
                    if start.elapsed() > Duration::from_secs(if memcheck { 1500 } else { 400 }) {
                        let _ = child.kill();
                        let _ = child.wait();
                        break None;
                    }
                    std::thread::sleep(Duration::from_millis(20));
                }
                Err(_) => break None,
            }
        };
        let stdout = String::from_utf8_lossy(&std::fs::read(&out_path).unwrap_or_default()).to_string();
        let stderr = String::from_utf8_lossy(&std::fs::read(&err_path).unwrap_or_default()).to_string();
        if memcheck {
            acc.count("memcheck_sessions", 1);
            let reports: Vec<&str> = stderr.lines().filter(|l| l.starts_with("==") && !l.contains("Warning")).collect();
            if status.map(|s| s.code() == Some(9)).unwrap_or(false) || reports.iter().any(|l| l.contains("Invalid ") || l.contains("uninitialised")) {
                let first = reports.iter().find(|l| l.contains("Invalid ") || l.contains("uninitialised") || l.contains("Mismatched")).copied().unwrap_or("");
                let kind = first.split("== ").nth(1).unwrap_or("").split(" of size").next().unwrap_or("").split(" at ").next().unwrap_or("").trim().replace(' ', "-");
                let last_input = stderr.lines().rev().find(|l| l.starts_with("INPUT ")).map(|l| l[6..].to_string()).unwrap_or_default();
                acc.violation(
                    format!("C14/memory-error-reported-by-memcheck/{}", kind),
                    json!({"report": reports.iter().take(40).collect::<Vec<_>>(), "last_input": last_input.chars().take(200).collect::<String>()}),
                );
                return;
            }
        }
        let result_line = stdout.lines().find(|l| l.starts_with("RESULT "));
        match (status, result_line) {
            (Some(s), Some(line)) if s.success() => match serde_json::from_str::<Acc>(&line[7..]) {
                Ok(a) => {
                    let had_violation = !a.violations.is_empty();
                    let inputs: u64 = a.counters.iter().filter(|(k, _)| k.starts_with("input/")).map(|(_, v)| *v).sum();
                    for k in a.counters.keys().filter(|k| k.starts_with("input/") && *k != "input/valid-request") {
                        acc.nontrivial(k.clone());
                    }
                    // keep the case bookkeeping of this process
                    let (c, s) = (acc.cur_case, acc.cur_seed);
                    let mut a = a;
                    for v in &mut a.violations {
                        v.case = c;
                        v.case_seed = s;
                    }
                    a.evaluations = 0;
                    acc.count("inputs", inputs);
                    acc.merge(a);
                    acc.cur_case = c;
                    acc.cur_seed = s;
                    if !had_violation {
                        acc.held(None);
                    }
                }
                Err(e) => acc.inconclusive(format!("unreadable result of the case process: {}", e)),
            },
            (None, _) => {
                let last_input = stderr.lines().rev().find(|l| l.starts_with("INPUT ")).map(|l| l[6..].to_string()).unwrap_or_else(|| "start".to_string());
                acc.aux(json!({"watchdog": true, "case": case, "last_input": last_input.chars().take(200).collect::<String>()}));
                acc.inconclusive(format!("case process exceeded its watchdog during {}", last_input.split('/').next().unwrap_or("")))
            }
            (Some(s), _) => {
                let tail: String = stderr.lines().rev().take(6).collect::<Vec<_>>().into_iter().rev().collect::<Vec<_>>().join(" | ");
                let last_input = stderr.lines().rev().find(|l| l.starts_with("INPUT ")).map(|l| l[6..].to_string()).unwrap_or_else(|| "start".to_string());
                acc.violation(
                    format!("C14/process-died/{}", last_input),
                    json!({"status": s.to_string(), "last_input": last_input, "stderr_tail": tail.chars().take(600).collect::<String>()}),
                );
            }
        }
    })
}
