//! C10 — A room means the same live, after restart, and on a peer that imports it.
use crate::peer::{small_config, Identity, Peer};
use crate::rights::{matrix_of_model, matrix_of_room, RoomModel};
use crate::runner::{Acc, CaseFut, Ctx, PropDef};
use crate::sync::{pull, PullOpts};
use crate::util::{clock_set, clock_step, short, DAY, T0};
use crate::world::{GroupSpec, RightSpec, RoomEdit, RoomHandle, RoomSpec, MODEL};
use rand::rngs::StdRng;
use rand::Rng;
use serde_json::{json, Value};

pub static DEF: PropDef = PropDef {
    id: "C10",
    level: "exploration",
    rule: "random room histories built through the mutation API by an admin and by a user admin on another instance (several entries per key: enabled, disabled, re-enabled; rights replaced over time; all-rows without own-rows; several groups and admins; dates spread over days). After every step the decision matrix (admin, member, user admin per group, own/all per entity, for every key and every entry date +-1) is read from: the live room, a restart of the instance on the same folder, a fresh instance that pulls the room, an instance that held an earlier version and pulls again, and a restart of the importer; every matrix must equal the one of the independent rights model, and start() must succeed. non-trivial = a key with at least two entries at distinct dates and a right replaced; distinct = canonical edit-kind sequence A lagging importer pulls only now and then (several versions behind); the second instance is often appointed admin and then authors admin-only edits.",
    assumptions: &[
        "restart = a second start() of the library on the same data folder in the same process (the first instance stays idle); imports go through the library's synchronise_room over in-memory channels",
    ],
    cases: |t| t.pick(40, 800),
    shards: |t| t.pick(10, 16),
    case_budget_s: |_| 300,
    min_conclusive: |t| t.pick(15, 300),
    run_case,
    finish: None,
    worker_threads: 4,
    tokio_per_case: true,
};

fn rand_right(rng: &mut StdRng, entity: &str) -> RightSpec {
    let (own, all) = match rng.gen_range(0..6) {
        0 => (false, false),
        1 | 2 => (true, false),
        3 | 4 => (true, true),
        _ => (false, true),
    };
    RightSpec { entity: entity.to_string(), own, all }
}

pub fn axes(model: &RoomModel, extra_keys: &[Vec<u8>]) -> (Vec<Vec<u8>>, Vec<String>, Vec<i64>) {
    let mut keys = model.all_keys();
    for k in extra_keys {
        if !keys.contains(k) {
            keys.push(k.clone());
        }
    }
    let ents: Vec<String> = ["Person", "Pet", "ns.Thing"].iter().map(|s| s.to_string()).collect();
    let mut dates = Vec::new();
    for d in model.all_dates() {
        dates.push(d - 1);
        dates.push(d);
        dates.push(d + 1);
    }
    // entries that the model does not know (accepted although they should not) start at their own date: the
    // present and a far future date are always part of the grid
    let now = crate::util::clock_get();
    if now > 0 {
        dates.push(now);
        dates.push(now + 1);
    }
    dates.push(crate::util::T0 + 20_000 * crate::util::DAY);
    dates.sort();
    dates.dedup();
    (keys, ents, dates)
}

/// compares the room held by `peer` with the model; returns the first differing cells
pub async fn compare(peer: &Peer, room: &RoomHandle, extra_keys: &[Vec<u8>]) -> Result<u64, Vec<String>> {
    let (keys, ents, dates) = axes(&room.model, extra_keys);
    let live = match peer.room(room.id).await {
        Some(r) => r,
        None => return Err(vec!["room unknown to the instance".to_string()]),
    };
    let mut a = matrix_of_room(&live, &keys, &ents, &dates);
    let mut b = matrix_of_model(&room.model, &keys, &ents, &dates);
    a.sort();
    b.sort();
    if a == b {
        Ok(a.len() as u64)
    } else {
        let mut d: Vec<String> = a.iter().filter(|x| !b.contains(x)).take(5).map(|x| format!("instance: {}", x)).collect();
        d.extend(b.iter().filter(|x| !a.contains(x)).take(5).map(|x| format!("model: {}", x)));
        Err(d)
    }
}

fn run_case<'a>(ctx: &'a Ctx, case: u64, acc: &'a mut Acc) -> CaseFut<'a> {
    Box::pin(async move {
        let mut rng = ctx.rng(case);
        let dir = ctx.case_dir(case);
        let seed = ctx.case_seed(case);
        clock_set(T0);
        clock_step(0);
        let mut t = T0;
        let a = match Peer::start("A", seed, 0, MODEL, &dir.join("a"), small_config()).await {
            Ok(p) => p,
            Err(e) => {
                acc.inconclusive(e);
                return;
            }
        };
        let u = Peer::start("U", seed, 1, MODEL, &dir.join("u"), small_config()).await.unwrap();
        let mut keys: Vec<Vec<u8>> = vec![a.id.vkey.clone(), u.id.vkey.clone()];
        for i in 0..3 {
            keys.push(Identity::new(seed, 10 + i).vkey);
        }
        // initial room: A admin, U user admin of group 0
        let spec = RoomSpec {
            admins: vec![(keys[0].clone(), true)],
            groups: vec![GroupSpec {
                name: "g0".into(),
                users: vec![(keys[2].clone(), true)],
                user_admins: vec![(keys[1].clone(), true)],
                rights: vec![rand_right(&mut rng, "Person"), rand_right(&mut rng, "*")],
            }],
        };
        t += 5;
        clock_set(t);
        let mut room = match a.create_room(&spec).await {
            Ok(r) => r,
            Err(e) => {
                acc.inconclusive(e);
                return;
            }
        };
        let mut log: Vec<Value> = vec![json!({"t": t - T0, "by": "A", "edit": "create room (A admin; g0: user k2, user admin U, rights Person,*)"})];
        let n_steps = rng.gen_range(3..ctx.tier.pick(9, 14));
        let mut kinds: Vec<String> = Vec::new();
        let mut importer_n = 0u64;
        let mut old_importer: Option<Peer> = None;
        let mut violated = false;
        let witness = |why: Value, room: &RoomHandle, log: &Vec<Value>| json!({"why": why, "model": room.model.describe(), "keys": keys.iter().map(|k| short(k)).collect::<Vec<_>>(), "history": log});
        // U learns the room
        t += 1;
        clock_set(t);
        let st = pull(&u, &a, room.id, PullOpts::default()).await;
        if let Some(e) = st.error {
            acc.violation("C10/import-new/refused/initial-room", witness(json!({"error": e}), &room, &log));
            return;
        }
        for step in 0..=n_steps {
            if step > 0 {
                t += match rng.gen_range(0..4) {
                    0 => rng.gen_range(1..50),
                    1 => rng.gen_range(1000..100_000),
                    _ => DAY + rng.gen_range(0..1000),
                };
                clock_set(t);
                let by_u = rng.gen_bool(0.3);
                let n_groups = room.groups.len();
                let g = rng.gen_range(0..n_groups);
                let key = keys[rng.gen_range(1..keys.len())].clone();
                // once U has been appointed admin it authors what only an admin can
                let u_is_admin = room.model.is_admin(&keys[1], t);
                let edit = if by_u && !u_is_admin {
                    RoomEdit::User(0, keys[rng.gen_range(2..keys.len())].clone(), rng.gen_bool(0.6))
                } else {
                    match rng.gen_range(0..12) {
                        // U is appointed admin fairly often
                        0 => RoomEdit::Admin(if rng.gen_bool(0.6) { keys[1].clone() } else { key }, rng.gen_bool(0.8)),
                        1..=4 => RoomEdit::User(g, key, rng.gen_bool(0.55)),
                        5 => RoomEdit::UserAdmin(g, key, rng.gen_bool(0.6)),
                        6..=9 => {
                            let e = ["Person", "Pet", "ns.Thing", "*"][rng.gen_range(0..4)];
                            RoomEdit::Right(g, rand_right(&mut rng, e))
                        }
                        _ => RoomEdit::NewGroup(GroupSpec {
                            name: format!("g{}", n_groups),
                            users: if rng.gen_bool(0.5) { vec![(key, true)] } else { vec![] },
                            user_admins: vec![],
                            rights: vec![rand_right(&mut rng, "*")],
                        }),
                    }
                };
                let editor = if by_u { &u } else { &a };
                let other = if by_u { &a } else { &u };
                match editor.edit_room(&mut room, &edit).await {
                    Ok(_) => {
                        kinds.push(format!("{}{}", if by_u { "U:" } else { "A:" }, edit.kind()));
                        log.push(json!({"t": t - T0, "by": if by_u {"U"} else {"A"}, "edit": edit.describe()}));
                        acc.count(&format!("edit/{}", edit.kind()), 1);
                    }
                    Err(e) => {
                        // whether an entitled edit may be refused is not C10's business
                        acc.count("edits_refused_by_the_api", 1);
                        log.push(json!({"t": t - T0, "by": if by_u {"U"} else {"A"}, "edit": edit.describe(), "refused": e.chars().take(80).collect::<String>()}));
                        continue;
                    }
                }
                // path (d): the other instance holds the previous version and pulls the new one
                t += 1;
                clock_set(t);
                let st = pull(other, editor, room.id, PullOpts::default()).await;
                if let Some(e) = st.error {
                    acc.violation(
                        format!("C10/import-update/refused/{}", edit.kind()),
                        witness(json!({"error": e, "importer": if by_u {"A"} else {"U"}}), &room, &log),
                    );
                    violated = true;
                    break;
                }
            }
            // (a) live on both
            for (name, p) in [("A", &a), ("U", &u)] {
                match compare(p, &room, &keys).await {
                    Ok(n) => acc.count("decision_cells_compared", n),
                    Err(d) => {
                        acc.violation(
                            format!("C10/{}/decisions-differ-from-model", if (name == "A") == !kinds.last().map(|k| k.starts_with("U:")).unwrap_or(false) { "live" } else { "import-update" }),
                            witness(json!({"instance": name, "cells": d}), &room, &log),
                        );
                        violated = true;
                    }
                }
            }
            if violated {
                break;
            }
            // (b) restart of A on its own data
            match Peer::start("A-restart", seed, 0, MODEL, &dir.join("a"), small_config()).await {
                Err(e) => {
                    acc.violation("C10/restart/start-fails-on-own-data", witness(json!({"error": e}), &room, &log));
                    violated = true;
                    break;
                }
                Ok(r) => match compare(&r, &room, &keys).await {
                    Ok(n) => acc.count("decision_cells_compared", n),
                    Err(d) => {
                        acc.violation("C10/restart/decisions-differ-from-model", witness(json!({"cells": d}), &room, &log));
                        violated = true;
                        break;
                    }
                },
            }
            acc.count("restarts", 1);
            // (c) a fresh instance imports the room
            importer_n += 1;
            let f = Peer::start("F", seed, 100 + importer_n, MODEL, &dir.join(format!("f{}", importer_n)), small_config()).await.unwrap();
            let st = pull(&f, &a, room.id, PullOpts::default()).await;
            acc.count("fresh_imports", 1);
            if let Some(e) = st.error {
                acc.violation("C10/import-new/refused", witness(json!({"error": e}), &room, &log));
                violated = true;
                break;
            }
            match compare(&f, &room, &keys).await {
                Ok(n) => acc.count("decision_cells_compared", n),
                Err(d) => {
                    acc.violation("C10/import-new/decisions-differ-from-model", witness(json!({"cells": d}), &room, &log));
                    violated = true;
                    break;
                }
            }
            // (e) restart of the importer
            match Peer::start("F-restart", seed, 100 + importer_n, MODEL, &dir.join(format!("f{}", importer_n)), small_config()).await {
                Err(e) => {
                    acc.violation("C10/restart-of-importer/start-fails", witness(json!({"error": e}), &room, &log));
                    violated = true;
                    break;
                }
                Ok(r) => match compare(&r, &room, &keys).await {
                    Ok(n) => acc.count("decision_cells_compared", n),
                    Err(d) => {
                        acc.violation("C10/restart-of-importer/decisions-differ-from-model", witness(json!({"cells": d}), &room, &log));
                        violated = true;
                        break;
                    }
                },
            }
            // (d') an importer that skipped several versions pulls again
            if let (Some(old), true) = (&old_importer, rng.gen_bool(0.4)) {
                acc.count("imports_several_versions_behind", 1);
                let st = pull(old, &a, room.id, PullOpts::default()).await;
                if let Some(e) = st.error {
                    acc.violation("C10/import-update/refused/several-versions-behind", witness(json!({"error": e}), &room, &log));
                    violated = true;
                    break;
                }
                match compare(old, &room, &keys).await {
                    Ok(n) => acc.count("decision_cells_compared", n),
                    Err(d) => {
                        acc.violation("C10/import-update/decisions-differ-from-model", witness(json!({"cells": d}), &room, &log));
                        violated = true;
                        break;
                    }
                }
            }
            if old_importer.is_none() || rng.gen_bool(0.15) {
                old_importer = Some(f);
            }
        }
        if violated {
            return;
        }
        let m = &room.model;
        let multi = m.all_keys().iter().any(|k| {
            let mut dates: Vec<i64> = m.admins.iter().filter(|e| &e.key == k).map(|e| e.date).collect();
            for g in m.groups.values() {
                dates.extend(g.users.iter().chain(g.user_admins.iter()).filter(|e| &e.key == k).map(|e| e.date));
            }
            dates.sort();
            dates.dedup();
            dates.len() >= 2
        });
        let replaced = m.groups.values().any(|g| {
            let mut ents: Vec<&String> = g.rights.iter().map(|r| &r.entity).collect();
            let n = ents.len();
            ents.sort();
            ents.dedup();
            ents.len() < n
        });
        let key = if multi && replaced { Some(kinds.join(",")) } else { None };
        acc.held(key);
        acc.sample(json!({"history": log}));
    })
}
