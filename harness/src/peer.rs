//! A real database instance (GraphDatabaseService, optionally a full Discret) plus the identity
//! material the harness needs to act as, or against, that peer.
use crate::util::b64;
use discret::verif::configuration::Configuration;
use discret::verif::database::authorisation_service::AuthorisationMessage;
use discret::verif::database::graph_database::GraphDatabaseService;
use discret::verif::database::room::Room;
use discret::verif::database::sqlite_database::Writeable;
use discret::verif::discret::DiscretServices;
use discret::verif::event_service::EventService;
use discret::verif::security::{derive_key, Ed25519SigningKey, SigningKey, Uid};
use discret::verif::signature_verification_service::SignatureVerificationService;
use discret::{Event, Parameters};
use std::path::{Path, PathBuf};
use tokio::sync::{broadcast, oneshot};

pub const APP_KEY: &str = "dv harness app";

pub fn small_config() -> Configuration {
    Configuration {
        parallelism: 2,
        enable_multicast: false,
        enable_beacons: false,
        read_cache_size_in_kb: 512,
        write_cache_size_in_kb: 512,
        ..Default::default()
    }
}

pub fn key_material(seed: u64, index: u64) -> [u8; 32] {
    let mut h = blake3::Hasher::new();
    h.update(b"dv key material");
    h.update(&seed.to_le_bytes());
    h.update(&index.to_le_bytes());
    *h.finalize().as_bytes()
}

/// the signing key the library derives for (app_key, key_material)
pub fn signing_key_for(app_key: &str, key_material: &[u8; 32]) -> Ed25519SigningKey {
    let signature_key = derive_key(&format!("{} SIGNING_KEY", app_key), key_material);
    Ed25519SigningKey::create_from(&signature_key)
}

/// an identity held by the harness (may or may not be backed by a running instance)
pub struct Identity {
    pub key_material: [u8; 32],
    pub signing: Ed25519SigningKey,
    pub vkey: Vec<u8>,
}
impl Identity {
    pub fn new(seed: u64, index: u64) -> Self {
        let km = key_material(seed, index);
        let signing = signing_key_for(APP_KEY, &km);
        let vkey = signing.export_verifying_key();
        Self {
            key_material: km,
            signing,
            vkey,
        }
    }
    pub fn vkey64(&self) -> String {
        b64(&self.vkey)
    }
}

pub struct Noop;
impl Writeable for Noop {
    fn write(&mut self, _conn: &rusqlite::Connection) -> Result<(), rusqlite::Error> {
        Ok(())
    }
}

/// keeps the writer thread busy for a while, so that the requests issued meanwhile end up in one transaction
pub struct Busy(pub u64);
impl Writeable for Busy {
    fn write(&mut self, _conn: &rusqlite::Connection) -> Result<(), rusqlite::Error> {
        std::thread::sleep(std::time::Duration::from_millis(self.0));
        Ok(())
    }
}

pub struct Peer {
    pub name: String,
    pub id: Identity,
    pub db: GraphDatabaseService,
    pub events: EventService,
    pub verify: SignatureVerificationService,
    pub private_room: Uid,
    pub folder: PathBuf,
    pub model: String,
    pub config: Configuration,
}

impl Peer {
    pub async fn start(
        name: &str,
        seed: u64,
        index: u64,
        model: &str,
        folder: &Path,
        config: Configuration,
    ) -> Result<Self, String> {
        let id = Identity::new(seed, index);
        Self::start_with_identity(name, id, model, folder, config).await
    }

    pub async fn start_with_identity(
        name: &str,
        id: Identity,
        model: &str,
        folder: &Path,
        config: Configuration,
    ) -> Result<Self, String> {
        std::fs::create_dir_all(folder).map_err(|e| e.to_string())?;
        let events = EventService::new();
        let pubkey = derive_key("dv meeting pub", &id.key_material);
        let (db, vkey, private_room) = GraphDatabaseService::start(
            APP_KEY,
            model,
            &id.key_material,
            &pubkey,
            folder.to_path_buf(),
            &config,
            events.clone(),
        )
        .await
        .map_err(|e| format!("start failed: {}", e))?;
        assert_eq!(vkey, id.vkey, "harness key derivation differs from the library");
        let verify = SignatureVerificationService::start(2);
        Ok(Self {
            name: name.to_string(),
            id,
            db,
            events,
            verify,
            private_room,
            folder: folder.to_path_buf(),
            model: model.to_string(),
            config,
        })
    }

    pub fn services(&self) -> DiscretServices {
        DiscretServices {
            events: self.events.clone(),
            database: self.db.clone(),
            signature_verification: self.verify.clone(),
        }
    }

    pub fn vkey64(&self) -> String {
        self.id.vkey64()
    }

    pub async fn mutate(&self, m: &str, p: Option<Parameters>) -> Result<String, String> {
        self.db.mutate(m, p).await.map_err(|e| e.to_string())
    }

    pub async fn mutate_raw(
        &self,
        m: &str,
        p: Option<Parameters>,
    ) -> Result<discret::verif::database::mutation_query::MutationQuery, discret::verif::database::Error>
    {
        self.db.mutate_raw(m, p).await
    }

    pub async fn delete(&self, d: &str, p: Option<Parameters>) -> Result<(), String> {
        self.db.delete(d, p).await.map(|_| ()).map_err(|e| e.to_string())
    }

    pub async fn query(&self, q: &str, p: Option<Parameters>) -> Result<String, String> {
        self.db.query(q, p).await.map_err(|e| e.to_string())
    }

    pub async fn query_json(
        &self,
        q: &str,
        p: Option<Parameters>,
    ) -> Result<serde_json::Value, String> {
        let s = self.query(q, p).await?;
        serde_json::from_str(&s).map_err(|e| format!("invalid json: {} in {}", e, s))
    }

    /// the in-memory room held by the authorisation actor (hook H5)
    pub async fn room(&self, id: Uid) -> Option<Room> {
        let (tx, rx) = oneshot::channel();
        self.db
            .auth
            .send(AuthorisationMessage::VerifGetRoom(id, tx))
            .await
            .ok()?;
        rx.await.ok().flatten()
    }

    pub async fn subscribe(&self) -> broadcast::Receiver<Event> {
        self.events.subcribe().await
    }

    /// deterministic quiescence barrier (no sleeps): every recompute request issued so far has been
    /// executed by the writer and its DataChanged event has been handed to the event service
    pub async fn barrier(&self) {
        // DB actor has forwarded every pending ComputeDailyLog to the writer
        let _ = self.db.datamodel().await;
        // the writer has executed them (FIFO) and queued DailyLogComputed to the DB actor
        let _ = self.db.db.writer.write(Box::new(Noop)).await;
        // the DB actor has processed DailyLogComputed and queued the event
        let _ = self.db.datamodel().await;
        // the event service has broadcast it
        let _ = self.events.subcribe().await;
    }

    /// ask for recomputation and wait for it
    pub async fn recompute(&self) {
        self.db.compute_daily_log().await;
        self.barrier().await;
    }

    /// run a read closure on one of the reader connections
    pub async fn read<T: Send + 'static>(
        &self,
        f: impl FnOnce(&rusqlite::Connection) -> T + Send + 'static,
    ) -> T {
        let (tx, rx) = oneshot::channel();
        self.db
            .db
            .reader
            .send_async(Box::new(move |conn| {
                let _ = tx.send(f(conn));
            }))
            .await
            .expect("reader closed");
        rx.await.expect("reader dropped the closure")
    }
}
