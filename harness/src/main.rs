use dv::runner::{conclude, run_shard, Acc, Ctx, Tier};
use std::path::PathBuf;
use std::process::{Command, Stdio};
use std::time::{Duration, Instant};

fn arg_value(args: &[String], name: &str) -> Option<String> {
    args.iter()
        .position(|a| a == name)
        .and_then(|i| args.get(i + 1).cloned())
}

fn verif_root() -> PathBuf {
    std::env::var("VERIF_ROOT")
        .map(PathBuf::from)
        .unwrap_or_else(|_| PathBuf::from("/verif"))
}

fn main() {
    let args: Vec<String> = std::env::args().collect();
    if args.len() < 3 {
        eprintln!("usage: dv run CNN [--tier quick|thorough] [--seed N] [--case N] | dv shard ... | dv child ...");
        std::process::exit(2);
    }
    let cmd = args[1].as_str();
    match cmd {
        "run" => run_parent(&args),
        "shard" => run_child_shard(&args),
        "child" => dv::props::run_child(&args[2..]),
        _ => {
            eprintln!("unknown command {}", cmd);
            std::process::exit(2);
        }
    }
}

fn parse_common(args: &[String]) -> (String, Tier, u64) {
    let prop = args[2].clone();
    let tier = arg_value(args, "--tier")
        .or_else(|| std::env::var("VERIF_TIER").ok())
        .unwrap_or_else(|| "quick".to_string());
    let tier = match tier.as_str() {
        "thorough" => Tier::Thorough,
        _ => Tier::Quick,
    };
    let seed = arg_value(args, "--seed")
        .or_else(|| std::env::var("VERIF_SEED").ok())
        .and_then(|s| s.parse::<u64>().ok())
        .unwrap_or(1);
    (prop, tier, seed)
}

fn run_parent(args: &[String]) {
    let wall = Instant::now();
    let (prop, tier, seed) = parse_common(args);
    let def = match dv::props::find(&prop) {
        Some(d) => d,
        None => {
            eprintln!("unknown property {}", prop);
            std::process::exit(2);
        }
    };
    let root = verif_root();
    let only_case = arg_value(args, "--case").and_then(|s| s.parse::<u64>().ok());
    let shards = if only_case.is_some() {
        1
    } else {
        (def.shards)(tier).max(1)
    };
    let run_dir = root
        .join("target")
        .join("run")
        .join(format!("{}-{}-{}", prop, tier.name(), std::process::id()));
    let _ = std::fs::remove_dir_all(&run_dir);
    std::fs::create_dir_all(&run_dir).unwrap();

    let exe = std::env::current_exe().unwrap();
    let mut children = Vec::new();
    for i in 0..shards {
        let out = run_dir.join(format!("shard-{}.json", i));
        let log = std::fs::File::create(run_dir.join(format!("shard-{}.log", i))).unwrap();
        let mut c = Command::new(&exe);
        c.arg("shard")
            .arg(&prop)
            .arg("--tier")
            .arg(tier.name())
            .arg("--seed")
            .arg(seed.to_string())
            .arg("--index")
            .arg(i.to_string())
            .arg("--of")
            .arg(shards.to_string())
            .arg("--out")
            .arg(&out)
            .arg("--workdir")
            .arg(run_dir.join(format!("w{}", i)))
            .stdin(Stdio::null())
            .stdout(log.try_clone().unwrap())
            .stderr(log);
        if let Some(c0) = only_case {
            c.arg("--case").arg(c0.to_string());
        }
        let child = c.spawn().expect("cannot spawn shard");
        children.push((i, child, out));
    }
    // generous global watchdog: cases * budget / shards, bounded
    let n_cases = if only_case.is_some() { 1 } else { (def.cases)(tier) };
    let per_shard = (n_cases as f64 / shards as f64).ceil() as u64;
    let watchdog = Duration::from_secs(
        (per_shard * (def.case_budget_s)(tier) + 120).min(tier.pick(3_000, 6 * 3600)),
    );
    let mut acc = Acc::default();
    let mut failures = Vec::new();
    for (i, mut child, out) in children {
        let status = loop {
            match child.try_wait() {
                Ok(Some(s)) => break Some(s),
                Ok(None) => {
                    if wall.elapsed() > watchdog {
                        let _ = child.kill();
                        let _ = child.wait();
                        break None;
                    }
                    std::thread::sleep(Duration::from_millis(50));
                }
                Err(_) => break None,
            }
        };
        let parsed: Option<Acc> = std::fs::read_to_string(&out)
            .ok()
            .and_then(|s| serde_json::from_str(&s).ok());
        match (status, parsed) {
            (Some(s), Some(a)) if s.success() => acc.merge(a),
            (s, a) => {
                let tail = std::fs::read_to_string(run_dir.join(format!("shard-{}.log", i)))
                    .unwrap_or_default();
                let tail: String = tail
                    .lines()
                    .rev()
                    .take(8)
                    .collect::<Vec<_>>()
                    .into_iter()
                    .rev()
                    .collect::<Vec<_>>()
                    .join(" | ");
                failures.push(format!(
                    "shard {} status {:?} output {}: {}",
                    i,
                    s.map(|s| s.to_string()),
                    if a.is_some() { "present" } else { "missing" },
                    tail
                ));
                if let Some(a) = a {
                    acc.merge(a);
                }
                acc.inconclusive(format!("shard {} did not finish", i));
            }
        }
    }
    let ctx = Ctx {
        prop: prop.clone(),
        tier,
        seed,
        shard: 0,
        shards,
        workdir: run_dir.clone(),
    };
    let verdict = conclude(def, &ctx, acc, wall, &root, failures);
    if verdict.exit_code == 0 && std::env::var("VERIF_KEEP").is_err() {
        let _ = std::fs::remove_dir_all(&run_dir);
    }
    std::process::exit(verdict.exit_code);
}

fn run_child_shard(args: &[String]) {
    let (prop, tier, seed) = parse_common(args);
    let def = dv::props::find(&prop).expect("unknown property");
    let index: usize = arg_value(args, "--index").unwrap().parse().unwrap();
    let of: usize = arg_value(args, "--of").unwrap().parse().unwrap();
    let out = PathBuf::from(arg_value(args, "--out").unwrap());
    let workdir = PathBuf::from(arg_value(args, "--workdir").unwrap());
    let only_case = arg_value(args, "--case").and_then(|s| s.parse::<u64>().ok());
    std::fs::create_dir_all(&workdir).unwrap();
    let ctx = Ctx {
        prop,
        tier,
        seed,
        shard: index,
        shards: of,
        workdir: workdir.clone(),
    };
    dv::util::install_panic_counter();
    let acc = run_shard(def, &ctx, only_case);
    std::fs::write(&out, serde_json::to_string(&acc).unwrap()).unwrap();
    let _ = std::fs::remove_dir_all(&workdir);
    // do not wait for leaked library threads
    std::process::exit(0);
}
