//! Canonical dump of the storage tables through a reader connection, and diffs between dumps.
use crate::peer::Peer;
use crate::util::b64;
use discret::verif::database::daily_log::DailyLog;
use discret::verif::database::edge::{Edge, EdgeDeletionEntry};
use discret::verif::database::node::{Node, NodeDeletionEntry};
use discret::verif::security::Uid;
use serde_json::{json, Value};
use std::collections::BTreeMap;

pub type NodeKeyId = discret::verif::security::Uid;

#[derive(Clone, Debug, Default)]
pub struct Snapshot {
    /// key: (id, entity)
    pub nodes: BTreeMap<(Uid, String), Node>,
    /// key: (src, label, dest)
    pub edges: BTreeMap<(Uid, String, Uid), Edge>,
    /// key: (room, deletion_date, id, entity)
    pub node_del: BTreeMap<(Uid, i64, Uid, String), NodeDel>,
    /// key: (room, deletion_date, src, label, dest)
    pub edge_del: BTreeMap<(Uid, i64, Uid, String, Uid), EdgeDel>,
    /// key: (room, entity, date)
    pub daily: BTreeMap<(Uid, String, i64), DailyLog>,
    pub config: BTreeMap<String, Option<String>>,
    pub room_changelog: BTreeMap<Uid, i64>,
}

#[derive(Clone, Debug, PartialEq, Eq)]
pub struct NodeDel {
    pub room_id: Uid,
    pub id: Uid,
    pub entity: String,
    pub mdate: i64,
    pub deletion_date: i64,
    pub verifying_key: Vec<u8>,
    pub signature: Vec<u8>,
}
impl NodeDel {
    pub fn to_entry(&self) -> NodeDeletionEntry {
        NodeDeletionEntry {
            room_id: self.room_id,
            id: self.id,
            entity: self.entity.clone(),
            mdate: self.mdate,
            deletion_date: self.deletion_date,
            verifying_key: self.verifying_key.clone(),
            signature: self.signature.clone(),
            entity_name: None,
            enable_full_text: false,
        }
    }
}

#[derive(Clone, Debug, PartialEq, Eq)]
pub struct EdgeDel {
    pub room_id: Uid,
    pub src: Uid,
    pub src_entity: String,
    pub dest: Uid,
    pub label: String,
    pub cdate: i64,
    pub deletion_date: i64,
    pub verifying_key: Vec<u8>,
    pub signature: Vec<u8>,
}
impl EdgeDel {
    pub fn to_entry(&self) -> EdgeDeletionEntry {
        EdgeDeletionEntry {
            room_id: self.room_id,
            src: self.src,
            src_entity: self.src_entity.clone(),
            dest: self.dest,
            label: self.label.clone(),
            cdate: self.cdate,
            deletion_date: self.deletion_date,
            verifying_key: self.verifying_key.clone(),
            signature: self.signature.clone(),
            entity_name: None,
        }
    }
}

pub fn node_sig(n: &Node) -> (Option<Uid>, i64, i64, Option<String>, Option<Vec<u8>>, Vec<u8>, Vec<u8>) {
    (
        n.room_id,
        n.cdate,
        n.mdate,
        n._json.clone(),
        n._binary.clone(),
        n.verifying_key.clone(),
        n._signature.clone(),
    )
}

pub fn node_json(n: &Node) -> Value {
    json!({
        "id": b64(&n.id),
        "room": n.room_id.map(|r| b64(&r)),
        "cdate": n.cdate,
        "mdate": n.mdate,
        "entity": n._entity,
        "json": n._json,
        "author": crate::util::short(&n.verifying_key),
        "sig": crate::util::short(&n._signature),
    })
}

pub fn edge_json(e: &Edge) -> Value {
    json!({
        "src": b64(&e.src),
        "src_entity": e.src_entity,
        "label": e.label,
        "dest": b64(&e.dest),
        "cdate": e.cdate,
        "author": crate::util::short(&e.verifying_key),
    })
}

pub fn edge_sig(e: &Edge) -> (String, i64, Vec<u8>, Vec<u8>) {
    (
        e.src_entity.clone(),
        e.cdate,
        e.verifying_key.clone(),
        e.signature.clone(),
    )
}

pub fn read_snapshot(conn: &rusqlite::Connection) -> Result<Snapshot, rusqlite::Error> {
    let mut s = Snapshot::default();
    {
        let mut st = conn.prepare("SELECT id, room_id, cdate, mdate, _entity, _json, _binary, verifying_key, _signature, rowid FROM _node")?;
        let mut rows = st.query([])?;
        while let Some(r) = rows.next()? {
            let n = Node {
                id: r.get(0)?,
                room_id: r.get(1)?,
                cdate: r.get(2)?,
                mdate: r.get(3)?,
                _entity: r.get(4)?,
                _json: r.get(5)?,
                _binary: r.get(6)?,
                verifying_key: r.get(7)?,
                _signature: r.get(8)?,
                _local_id: r.get(9)?,
            };
            s.nodes.insert((n.id, n._entity.clone()), n);
        }
    }
    {
        let mut st = conn.prepare(
            "SELECT src, src_entity, label, dest, cdate, verifying_key, signature FROM _edge",
        )?;
        let mut rows = st.query([])?;
        while let Some(r) = rows.next()? {
            let e = Edge {
                src: r.get(0)?,
                src_entity: r.get(1)?,
                label: r.get(2)?,
                dest: r.get(3)?,
                cdate: r.get(4)?,
                verifying_key: r.get(5)?,
                signature: r.get(6)?,
            };
            s.edges.insert((e.src, e.label.clone(), e.dest), e);
        }
    }
    {
        let mut st = conn.prepare("SELECT room_id, id, entity, mdate, deletion_date, verifying_key, signature FROM _node_deletion_log")?;
        let mut rows = st.query([])?;
        while let Some(r) = rows.next()? {
            let d = NodeDel {
                room_id: r.get(0)?,
                id: r.get(1)?,
                entity: r.get(2)?,
                mdate: r.get(3)?,
                deletion_date: r.get(4)?,
                verifying_key: r.get(5)?,
                signature: r.get(6)?,
            };
            s.node_del
                .insert((d.room_id, d.deletion_date, d.id, d.entity.clone()), d);
        }
    }
    {
        let mut st = conn.prepare("SELECT room_id, src, src_entity, dest, label, cdate, deletion_date, verifying_key, signature FROM _edge_deletion_log")?;
        let mut rows = st.query([])?;
        while let Some(r) = rows.next()? {
            let d = EdgeDel {
                room_id: r.get(0)?,
                src: r.get(1)?,
                src_entity: r.get(2)?,
                dest: r.get(3)?,
                label: r.get(4)?,
                cdate: r.get(5)?,
                deletion_date: r.get(6)?,
                verifying_key: r.get(7)?,
                signature: r.get(8)?,
            };
            s.edge_del.insert(
                (d.room_id, d.deletion_date, d.src, d.label.clone(), d.dest),
                d,
            );
        }
    }
    {
        let mut st = conn.prepare("SELECT room_id, entity, date, entry_number, daily_hash, history_hash, need_recompute FROM _daily_log")?;
        let mut rows = st.query([])?;
        while let Some(r) = rows.next()? {
            let need: Option<bool> = r.get(6)?;
            let d = DailyLog {
                room_id: r.get(0)?,
                entity: r.get(1)?,
                date: r.get(2)?,
                entry_number: r.get(3)?,
                daily_hash: r.get(4)?,
                history_hash: r.get(5)?,
                need_recompute: need.unwrap_or(false),
            };
            s.daily.insert((d.room_id, d.entity.clone(), d.date), d);
        }
    }
    {
        let mut st = conn.prepare("SELECT key, value FROM _configuration")?;
        let mut rows = st.query([])?;
        while let Some(r) = rows.next()? {
            s.config.insert(r.get(0)?, r.get(1)?);
        }
    }
    {
        let mut st = conn.prepare("SELECT room_id, mdate FROM _room_changelog")?;
        let mut rows = st.query([])?;
        while let Some(r) = rows.next()? {
            s.room_changelog.insert(r.get(0)?, r.get(1)?);
        }
    }
    Ok(s)
}

impl Peer {
    pub async fn snapshot(&self) -> Snapshot {
        self.read(|c| read_snapshot(c))
            .await
            .expect("snapshot query failed")
    }
}

/// one difference between two snapshots
#[derive(Clone, Debug)]
pub enum Change {
    NodeAdded(Node),
    NodeRemoved(Node),
    NodeChanged(Node, Node),
    EdgeAdded(Edge),
    EdgeRemoved(Edge),
    EdgeChanged(Edge, Edge),
    NodeDelAdded(NodeDel),
    NodeDelRemoved(NodeDel),
    EdgeDelAdded(EdgeDel),
    EdgeDelRemoved(EdgeDel),
}

impl Change {
    pub fn describe(&self) -> Value {
        match self {
            Change::NodeAdded(n) => json!({"node_added": node_json(n)}),
            Change::NodeRemoved(n) => json!({"node_removed": node_json(n)}),
            Change::NodeChanged(a, b) => json!({"node_changed": [node_json(a), node_json(b)]}),
            Change::EdgeAdded(e) => json!({"edge_added": edge_json(e)}),
            Change::EdgeRemoved(e) => json!({"edge_removed": edge_json(e)}),
            Change::EdgeChanged(a, b) => json!({"edge_changed": [edge_json(a), edge_json(b)]}),
            Change::NodeDelAdded(d) => {
                json!({"node_deletion_added": {"id": b64(&d.id), "room": b64(&d.room_id), "entity": d.entity, "mdate": d.mdate, "deletion_date": d.deletion_date}})
            }
            Change::NodeDelRemoved(d) => {
                json!({"node_deletion_removed": {"id": b64(&d.id), "room": b64(&d.room_id)}})
            }
            Change::EdgeDelAdded(d) => {
                json!({"edge_deletion_added": {"src": b64(&d.src), "label": d.label, "dest": b64(&d.dest), "room": b64(&d.room_id), "cdate": d.cdate, "deletion_date": d.deletion_date}})
            }
            Change::EdgeDelRemoved(d) => {
                json!({"edge_deletion_removed": {"src": b64(&d.src), "label": d.label, "dest": b64(&d.dest)}})
            }
        }
    }
}

/// differences of the data tables (nodes, edges, deletion logs); the daily log, the configuration and
/// the room change log are compared separately where a property needs them
pub fn diff(a: &Snapshot, b: &Snapshot) -> Vec<Change> {
    let mut out = Vec::new();
    for (k, n) in &a.nodes {
        match b.nodes.get(k) {
            None => out.push(Change::NodeRemoved(n.clone())),
            Some(m) => {
                if node_sig(n) != node_sig(m) {
                    out.push(Change::NodeChanged(n.clone(), m.clone()))
                }
            }
        }
    }
    for (k, n) in &b.nodes {
        if !a.nodes.contains_key(k) {
            out.push(Change::NodeAdded(n.clone()));
        }
    }
    for (k, e) in &a.edges {
        match b.edges.get(k) {
            None => out.push(Change::EdgeRemoved(e.clone())),
            Some(f) => {
                if edge_sig(e) != edge_sig(f) {
                    out.push(Change::EdgeChanged(e.clone(), f.clone()))
                }
            }
        }
    }
    for (k, e) in &b.edges {
        if !a.edges.contains_key(k) {
            out.push(Change::EdgeAdded(e.clone()));
        }
    }
    for (k, d) in &a.node_del {
        if b.node_del.get(k) != Some(d) {
            out.push(Change::NodeDelRemoved(d.clone()));
        }
    }
    for (k, d) in &b.node_del {
        if a.node_del.get(k) != Some(d) {
            out.push(Change::NodeDelAdded(d.clone()));
        }
    }
    for (k, d) in &a.edge_del {
        if b.edge_del.get(k) != Some(d) {
            out.push(Change::EdgeDelRemoved(d.clone()));
        }
    }
    for (k, d) in &b.edge_del {
        if a.edge_del.get(k) != Some(d) {
            out.push(Change::EdgeDelAdded(d.clone()));
        }
    }
    out
}
