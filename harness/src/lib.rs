pub mod peer;
pub mod props;
pub mod rights;
pub mod runner;
pub mod snapshot;
pub mod sync;
pub mod util;
