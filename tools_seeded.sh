#!/bin/bash
# usage: tools_seeded.sh <ID> <worktree> [properties to check, default ID]
# confirms a seeded change in its scratch worktree, stores it under /verif/seeded/<ID>, runs the checks against it in /repo
set -u
ID=$1; WT=$2; shift 2; PROPS=${*:-${ID%%-*}}
OUT=/verif/seeded/$ID; mkdir -p $OUT
cp $WT/OUT/patch.diff $OUT/patch.diff
[ -f $WT/OUT/demo.rs ] && cp $WT/OUT/demo.rs $OUT/demo.rs
[ -f $WT/OUT/demo.diff ] && cp $WT/OUT/demo.diff $OUT/demo.diff
cp $WT/OUT/NOTES.md $OUT/NOTES.md
cd $WT
# state: patch applied?
git diff -- src > /tmp/seeded-cur.diff
if ! diff -q /tmp/seeded-cur.diff $OUT/patch.diff >/dev/null; then git checkout -- src; git apply $OUT/patch.diff || { echo "PATCH DOES NOT APPLY in worktree"; exit 2; }; fi
echo "== confirm: builds (feature off / on)"
cargo build --offline 2>&1 | tail -1; cargo build --offline --features verif 2>&1 | tail -1
echo "== confirm: suite with the change"
mkdir -p /tmp/seeded-aside; [ -f tests/zz_demo.rs ] && mv tests/zz_demo.rs /tmp/seeded-aside/zz_demo.rs.$ID
rm -rf test_data
SUITE=$(CARGO_NET_OFFLINE=true cargo nextest run --workspace --no-fail-fast --test-threads 8 --offline 2>&1 | grep -E "Summary" | tail -1)
echo "$SUITE"
rm -rf test_data
DEMO_WITH="n/a"; DEMO_WITHOUT="n/a"
if [ -f $OUT/demo.rs ]; then
  cp $OUT/demo.rs tests/zz_demo.rs
  echo "== confirm: demo with the change (expected to fail)"
  cargo test --offline --features verif --test zz_demo 2>&1 | grep -E "^test result|panicked|FAILED|failed" | head -5 > /tmp/seeded-with.txt; cat /tmp/seeded-with.txt
  DEMO_WITH=$(grep -E "^test result" /tmp/seeded-with.txt | tail -1)
  rm -rf test_data
  git apply -R $OUT/patch.diff
  echo "== confirm: demo without the change (expected to pass)"
  cargo test --offline --features verif --test zz_demo 2>&1 | grep -E "^test result|panicked|FAILED|failed" | head -5 > /tmp/seeded-without.txt; cat /tmp/seeded-without.txt
  DEMO_WITHOUT=$(grep -E "^test result" /tmp/seeded-without.txt | tail -1)
  git apply $OUT/patch.diff
  rm -f tests/zz_demo.rs; rm -rf test_data
fi
if [ -f $OUT/demo.diff ]; then
  git apply $OUT/demo.diff || echo "demo.diff does not apply"
  echo "== confirm: unit demo with the change (expected to fail)"
  cargo test --offline --lib zz_demo 2>&1 | grep -E "^test result|panicked|FAILED|failed" | head -5 > /tmp/seeded-with.txt; cat /tmp/seeded-with.txt
  DEMO_WITH=$(grep -E "^test result" /tmp/seeded-with.txt | tail -1)
  git apply -R $OUT/patch.diff
  echo "== confirm: unit demo without the change (expected to pass)"
  cargo test --offline --lib zz_demo 2>&1 | grep -E "^test result|panicked|FAILED|failed" | head -5 > /tmp/seeded-without.txt; cat /tmp/seeded-without.txt
  DEMO_WITHOUT=$(grep -E "^test result" /tmp/seeded-without.txt | tail -1)
  git apply $OUT/patch.diff
  git apply -R $OUT/demo.diff
  rm -rf test_data
fi
cd /verif
echo "== checks against the change applied to /repo"
git -C /repo status --short | grep -v "^??" && { echo "/repo not clean"; exit 3; }
git -C /repo apply $OUT/patch.diff || { echo "PATCH DOES NOT APPLY to /repo"; exit 2; }
RES="{}"
for P in $PROPS; do
  for TIER in quick thorough; do
    START=$(date +%s)
    ./check $P --tier $TIER > /tmp/seeded-check.txt 2>&1; RC=$?
    END=$(date +%s)
    NV=$(grep -c "^VIOLATION" /tmp/seeded-check.txt)
    SIGS=$(grep "^VIOLATION" /tmp/seeded-check.txt | sed 's/.*signature=//' | sort -u | head -8 | jq -R . | jq -s .)
    echo "$P $TIER exit=$RC violations=$NV wall=$((END-START))s"; grep "^VIOLATION" /tmp/seeded-check.txt | head -4 | cut -c1-250
    RES=$(echo "$RES" | jq --arg p "$P" --arg t "$TIER" --argjson rc $RC --argjson sigs "$SIGS" --argjson w $((END-START)) '.[$p+"/"+$t]={exit:$rc, wall_s:$w, signatures:$sigs}')
    [ $RC -eq 1 ] && break
  done
done
git -C /repo checkout -- .
git -C /repo status --short | grep -v "^??"
jq -n --arg id "$ID" --arg suite "$SUITE" --arg dw "$DEMO_WITH" --arg dwo "$DEMO_WITHOUT" --argjson res "$RES" --arg base "$(git -C /repo rev-parse --short HEAD)" \
  '{id:$id, made_by:"fresh sub-agent given only the property text and a scratch worktree", repo_head_when_checked:$base, confirmed_in_scratch_worktree:{suite_with_change:$suite, demo_with_change:$dw, demo_without_change:$dwo}, checks:$res}' > $OUT/meta.json
cat $OUT/meta.json | jq -c .checks
# restore evidence of the unchanged tree
for P in $PROPS; do ./check $P --tier quick > /dev/null 2>&1; done
