fn main() {
    let args: Vec<String> = std::env::args().collect();
    let seed: u64 = args.get(1).and_then(|s| s.parse().ok()).unwrap_or(1);
    let count: usize = args.get(2).and_then(|s| s.parse().ok()).unwrap_or(20);
    let r = dv::props::c20::miri_replay(seed, count);
    println!("MIRI-C20 sequences={} grants={} violation={:?}", r.0, r.1, r.2);
    let k = dv::props::c06::miri_replay(seed, count);
    println!("MIRI-C06 rows={} mutants_refused={} mutants_accepted={}", k.0, k.1, k.2);
    if r.2.is_some() {
        std::process::exit(1);
    }
}
